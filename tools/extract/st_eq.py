"""json_object.c facts used by the C09 model (Model/Equal.lean): the shape of json_object_equal,
json_array_equal, json_object_all_values_equal, json_object_deep_copy(_recursive),
json_c_shallow_copy_default and json_object_copy_serializer_data.

Each fact is a Bool read off the *text* of the current source (comments stripped, whitespace and the
names of locals free; parameter names are taken from the signature).  Props/C09.lean asserts them in
`source_shape` by `decide`, so a source change that alters one makes that named theorem fail."""
import re
from structure import strip_c_comments, func_body, read, lit


def b(v):
    return "true" if v else "false"


def norm(s):
    return re.sub(r"\s+", "", s)


def params(src, name):
    """parameter names of the first definition of `name`"""
    for m in re.finditer(r"\b%s\s*\(" % re.escape(name), src):
        i, depth = m.end(), 1
        while i < len(src) and depth:
            depth += {"(": 1, ")": -1}.get(src[i], 0)
            i += 1
        j = i
        while j < len(src) and src[j] in " \t\r\n":
            j += 1
        if j < len(src) and src[j] == "{":
            args = src[m.end():i - 1]
            return [re.findall(r"\w+", a)[-1] for a in args.split(",") if re.findall(r"\w+", a)]
    return []


def case_text(nb, label):
    """normalised text of `case <label>:` up to the next case/default label of the same switch"""
    m = re.search(r"case%s:" % re.escape(label), nb)
    if not m:
        return ""
    rest = nb[m.end():]
    # cut at the next label at brace depth 0
    depth, i = 0, 0
    while i < len(rest):
        c = rest[i]
        if c == "{":
            depth += 1
        elif c == "}":
            if depth == 0:
                break
            depth -= 1
        elif depth == 0 and (rest.startswith("casejson_type_", i) or rest.startswith("default:", i)):
            break
        i += 1
    return rest[:i]


def facts(repo, cfg):
    out = []
    jo = strip_c_comments(read(repo, "json_object.c"))

    # ---------------- json_object_equal
    body = func_body(jo, "json_object_equal")
    nb = norm(body)
    ps = params(jo, "json_object_equal")
    ok = len(ps) == 2
    A, B = (ps + ["?", "?"])[:2]
    eA, eB = re.escape(A), re.escape(B)
    first = bool(re.match(r"\{if\(%s==%s\)return1;" % (eA, eB), nb)) or \
        bool(re.match(r"\{if\(%s==%s\)return1;" % (eB, eA), nb))
    out.append(lit("eqPtrShortcutFirst", "Bool", b(ok and first) if body else None,
                   "json_object_equal begins with: if (jso1 == jso2) return 1;"))
    nullck = bool(re.search(r"if\(!%s\|\|!%s\)return0;" % (eA, eB), nb))
    typeck = bool(re.search(r"if\(%s->o_type!=%s->o_type\)return0;" % (eA, eB), nb))
    sw = bool(re.search(r"switch\(%s->o_type\)" % eA, nb))
    out.append(lit("eqNullThenTypeCheck", "Bool", b(nullck and typeck and sw) if body else None,
                   "then: if (!jso1 || !jso2) return 0; if (jso1->o_type != jso2->o_type) return 0; switch (jso1->o_type)"))
    c = case_text(nb, "json_type_boolean")
    out.append(lit("eqBoolCase", "Bool",
                   b(c == "return(JC_BOOL(%s)->c_boolean==JC_BOOL(%s)->c_boolean);" % (A, B)) if body else None,
                   "boolean: c_boolean == c_boolean"))
    c = case_text(nb, "json_type_double")
    out.append(lit("eqDoubleCase", "Bool",
                   b(c == "return(JC_DOUBLE(%s)->c_double==JC_DOUBLE(%s)->c_double);" % (A, B)) if body else None,
                   "double: c_double == c_double (C == on double)"))
    c = case_text(nb, "json_type_int")
    # the two declarations may come in either order
    m2 = re.match(r"\{structjson_object_int\*(\w+)=JC_INT\(%s\);structjson_object_int\*(\w+)=JC_INT\(%s\);" % (eB, eA), c)
    if m2:
        c = "{structjson_object_int*%s=JC_INT(%s);structjson_object_int*%s=JC_INT(%s);" % (m2.group(2), A, m2.group(1), B) + c[m2.end():]
    pat = (r"\{structjson_object_int\*(\w+)=JC_INT\(%s\);structjson_object_int\*(\w+)=JC_INT\(%s\);"
           r"if\(\1->cint_type==json_object_int_type_int64\)\{"
           r"if\(\2->cint_type==json_object_int_type_int64\)return\(\1->cint\.c_int64==\2->cint\.c_int64\);"
           r"if\(\1->cint\.c_int64<0\)return0;"
           r"return\(\(uint64_t\)\1->cint\.c_int64==\2->cint\.c_uint64\);\}"
           r"if\(\2->cint_type==json_object_int_type_uint64\)return\(\1->cint\.c_uint64==\2->cint\.c_uint64\);"
           r"if\(\2->cint\.c_int64<0\)return0;"
           r"return\(\1->cint\.c_uint64==\(uint64_t\)\2->cint\.c_int64\);\}") % (eA, eB)
    out.append(lit("eqIntFourCases", "Bool", b(bool(re.fullmatch(pat, c))) if body else None,
                   "int: int64/int64, int64/uint64 (negative -> 0, else cast), uint64/uint64, uint64/int64"))
    c = case_text(nb, "json_type_string")
    pat = (r"\{return\(_json_object_get_string_len\(JC_STRING\(%s\)\)==_json_object_get_string_len\(JC_STRING\(%s\)\)&&"
           r"memcmp\(get_string_component\(%s\),get_string_component\(%s\),_json_object_get_string_len\(JC_STRING\(%s\)\)\)==0\);\}"
           ) % (eA, eB, eA, eB, eA)
    out.append(lit("eqStringLenMemcmp", "Bool", b(bool(re.fullmatch(pat, c))) if body else None,
                   "string: |len| equal and memcmp over that length (through _json_object_get_string_len / get_string_component)"))
    disp = case_text(nb, "json_type_object") == "returnjson_object_all_values_equal(%s,%s);" % (A, B) and \
        case_text(nb, "json_type_array") == "returnjson_array_equal(%s,%s);" % (A, B) and \
        case_text(nb, "json_type_null").startswith("return1;")
    out.append(lit("eqDispatch", "Bool", b(disp) if body else None,
                   "object -> json_object_all_values_equal(jso1, jso2); array -> json_array_equal(jso1, jso2)"))
    # helper used by the string case: absolute value of the signed length field
    gl = norm(func_body(jo, "_json_object_get_string_len"))
    m = re.search(r"(\w+)=\w+->len;return\(\1<0\)\?-\(ssize_t\)\1:\1;", gl)
    out.append(lit("strLenIsAbs", "Bool", b(bool(m)) if gl else None,
                   "_json_object_get_string_len: len < 0 ? -len : len"))

    # ---------------- json_array_equal
    body = func_body(jo, "json_array_equal")
    nb = norm(body)
    ps = params(jo, "json_array_equal")
    A, B = (ps + ["?", "?"])[:2]
    eA, eB = re.escape(A), re.escape(B)
    m = re.search(r"(\w+)=json_object_array_length\(%s\);if\(\1!=json_object_array_length\(%s\)\)return0;" % (eA, eB), nb)
    loop = False
    if m:
        ln = m.group(1)
        loop = bool(re.search(r"for\((\w+)=0;\1<%s;\1\+\+\)\{if\(!json_object_equal\(json_object_array_get_idx\(%s,\1\),"
                              r"json_object_array_get_idx\(%s,\1\)\)\)return0;\}return1;" % (re.escape(ln), eA, eB), nb))
    out.append(lit("eqArrayLenThenElems", "Bool", b(bool(m) and loop) if body else None,
                   "json_array_equal: lengths differ -> 0; every index i < len: json_object_equal(a[i], b[i])"))

    # ---------------- json_object_all_values_equal
    body = func_body(jo, "json_object_all_values_equal")
    nb = norm(body)
    ps = params(jo, "json_object_all_values_equal")
    A, B = (ps + ["?", "?"])[:2]
    eA, eB = re.escape(A), re.escape(B)
    w1 = re.search(r"json_object_object_foreachC\(%s,(\w+)\)\{if\(!lh_table_lookup_ex\(JC_OBJECT\(%s\)->c_object,\(void\*\)\1\.key,"
                   r"\(void\*\*\)\(void\*\)&(\w+)\)\)return0;if\(!json_object_equal\(\1\.val,\2\)\)return0;\}" % (eA, eB), nb)
    w2 = re.search(r"json_object_object_foreachC\(%s,(\w+)\)\{if\(!lh_table_lookup_ex\(JC_OBJECT\(%s\)->c_object,\(void\*\)\1\.key,"
                   r"\(void\*\*\)\(void\*\)&(\w+)\)\)return0;\}return1;\}$" % (eB, eA), nb)
    two = bool(w1) and bool(w2) and nb.count("lh_table_lookup_ex(") == 2 and nb.count("json_object_object_foreachC(") == 2 \
        and w1.end() <= w2.start()
    out.append(lit("eqObjTwoWalks", "Bool", b(two) if body else None,
                   "all_values_equal: each key of jso1 looked up in jso2 (lh_table_lookup_ex) and values compared; then each key of jso2 looked up in jso1"))

    # ---------------- json_object_deep_copy
    body = func_body(jo, "json_object_deep_copy")
    nb = norm(body)
    ps = params(jo, "json_object_deep_copy")
    S, D, F = (ps + ["?", "?", "?"])[:3]
    arg = bool(re.search(r"if\(!%s\|\|!%s\|\|\*%s\)\{errno=EINVAL;return-1;\}" % (re.escape(S), re.escape(D), re.escape(D)), nb))
    dflt = bool(re.search(r"if\(%s==NULL\)%s=json_c_shallow_copy_default;" % (re.escape(F), re.escape(F)), nb))
    call = bool(re.search(r"(\w+)=json_object_deep_copy_recursive\(%s,NULL,NULL,UINT_MAX,%s,%s\);if\(\1<0\)\{json_object_put\(\*%s\);\*%s=NULL;\}return\1;"
                          % (re.escape(S), re.escape(D), re.escape(F), re.escape(D), re.escape(D)), nb))
    out.append(lit("copyArgCheck", "Bool", b(arg and dflt and call) if body else None,
                   "deep_copy: !src || !dst || *dst -> EINVAL, -1; default shallow copy; rc of the recursive copy returned"))

    # ---------------- json_object_deep_copy_recursive
    body = func_body(jo, "json_object_deep_copy_recursive")
    nb = norm(body)
    ps = params(jo, "json_object_deep_copy_recursive")
    S, P, K, I, D, F = (ps + ["?"] * 6)[:6]
    eS, eD, eF = re.escape(S), re.escape(D), re.escape(F)
    sh = re.search(r"(\w+)=%s\(%s,%s,%s,%s,%s\);if\(\1<1\)\{errno=EINVAL;return-1;\}" %
                   (eF, eS, re.escape(P), re.escape(K), re.escape(I), eD), nb)
    out.append(lit("copyShallowFirst", "Bool", b(bool(sh)) if body else None,
                   "deep_copy_recursive: shallow_copy(src, parent, key, index, dst) first; rc < 1 -> -1"))
    c = case_text(nb, "json_type_object")
    pat = (r"json_object_object_foreachC\(%s,(\w+)\)\{structjson_object\*(\w+)=NULL;"
           r"if\(!\1\.val\)\2=NULL;"
           r"elseif\(json_object_deep_copy_recursive\(\1\.val,%s,\1\.key,UINT_MAX,&\2,%s\)<0\)\{json_object_put\(\2\);return-1;\}"
           r"if\(json_object_object_add\(\*%s,\1\.key,\2\)<0\)\{json_object_put\(\2\);return-1;\}\}break;") % (eS, eS, eF, eD)
    out.append(lit("copyObjLoopAdds", "Bool", b(bool(re.fullmatch(pat, c))) if body else None,
                   "object: every member in order; NULL value attached as NULL; json_object_object_add(*dst, key, copy)"))
    c = case_text(nb, "json_type_array")
    # the two declarations at the head of the loop body may come in either order
    c = re.sub(r"\{(structjson_object\*\w+=json_object_array_get_idx\(\w+,\w+\);)(structjson_object\*\w+=NULL;)", r"{\2\1", c)
    pat = (r"(\w+)=json_object_array_length\(%s\);for\((\w+)=0;\2<\1;\2\+\+\)\{structjson_object\*(\w+)=NULL;"
           r"structjson_object\*(\w+)=json_object_array_get_idx\(%s,\2\);"
           r"if\(!\4\)\3=NULL;"
           r"elseif\(json_object_deep_copy_recursive\(\4,%s,NULL,\2,&\3,%s\)<0\)\{json_object_put\(\3\);return-1;\}"
           r"if\(json_object_array_add\(\*%s,\3\)<0\)\{json_object_put\(\3\);return-1;\}\}break;") % (eS, eS, eS, eF, eD)
    out.append(lit("copyArrLoopAppends", "Bool", b(bool(re.fullmatch(pat, c))) if body else None,
                   "array: every index < length in order, NULL elements included; json_object_array_add(*dst, copy)"))
    ser = bool(sh) and bool(re.search(r"if\(%s!=2\)returnjson_object_copy_serializer_data\(%s,\*%s\);return0;\}$" %
                                      (re.escape(sh.group(1)), eS, eD), nb))
    out.append(lit("copySerializerDataLast", "Bool", b(ser) if body else None,
                   "deep_copy_recursive ends: if (shallow_copy_rc != 2) return json_object_copy_serializer_data(src, *dst); return 0"))

    # ---------------- json_c_shallow_copy_default
    body = func_body(jo, "json_c_shallow_copy_default")
    nb = norm(body)
    ps = params(jo, "json_c_shallow_copy_default")
    S, D = (ps + ["?"] * 5)[0], (ps + ["?"] * 5)[4]
    eS, eD = re.escape(S), re.escape(D)
    leaf = ("casejson_type_boolean:*%s=json_object_new_boolean(JC_BOOL(%s)->c_boolean);break;" % (D, S)) in nb and \
        ("casejson_type_double:*%s=json_object_new_double(JC_DOUBLE(%s)->c_double);break;" % (D, S)) in nb and \
        ("casejson_type_object:*%s=json_object_new_object();break;" % D) in nb and \
        ("casejson_type_array:*%s=json_object_new_array();break;" % D) in nb
    ints = ("casejson_object_int_type_int64:*%s=json_object_new_int64(JC_INT(%s)->cint.c_int64);break;" % (D, S)) in nb and \
        ("casejson_object_int_type_uint64:*%s=json_object_new_uint64(JC_INT(%s)->cint.c_uint64);break;" % (D, S)) in nb and \
        ("switch(JC_INT(%s)->cint_type)" % S) in nb
    strs = ("casejson_type_string:*%s=json_object_new_string_len(get_string_component(%s),_json_object_get_string_len(JC_STRING(%s)));break;"
            % (D, S, S)) in nb
    sercp = ("(*%s)->_to_json_string=%s->_to_json_string;" % (D, S)) in nb and nb.endswith("return1;}")
    out.append(lit("shallowLeafKinds", "Bool", b(leaf) if body else None,
                   "shallow copy: boolean/double by value, fresh empty object/array"))
    out.append(lit("shallowIntKeepsType", "Bool", b(ints) if body else None,
                   "shallow copy: int64 -> json_object_new_int64(c_int64), uint64 -> json_object_new_uint64(c_uint64)"))
    out.append(lit("shallowStringByLen", "Bool", b(strs) if body else None,
                   "shallow copy: json_object_new_string_len(data, |len|)"))
    out.append(lit("shallowCopiesSerializerFn", "Bool", b(sercp) if body else None,
                   "shallow copy: (*dst)->_to_json_string = src->_to_json_string; returns 1"))

    # ---------------- json_object_copy_serializer_data
    body = func_body(jo, "json_object_copy_serializer_data")
    nb = norm(body)
    ps = params(jo, "json_object_copy_serializer_data")
    S, D = (ps + ["?", "?"])[:2]
    eS, eD = re.escape(S), re.escape(D)
    none = bool(re.match(r"\{if\(!%s->_userdata&&!%s->_user_delete\)return0;" % (eS, eS), nb))
    dup = bool(re.search(r"if\(%s->_to_json_string==json_object_userdata_to_json_string\|\|"
                         r"%s->_to_json_string==_json_object_userdata_to_json_string\)\{"
                         r"char\*(\w+);assert\(%s->_userdata\);\1=strdup\(%s->_userdata\);"
                         r"if\(\1==NULL\)\{[^{}]*return-1;\}%s->_userdata=\1;\}" % (eD, eD, eS, eS, eD), nb))
    dele = bool(re.search(r"%s->_user_delete=%s->_user_delete;return0;\}$" % (eD, eS), nb))
    out.append(lit("serDataStrdup", "Bool", b(none and dup and dele) if body else None,
                   "copy_serializer_data: nothing to do without userdata; userdata serializer -> strdup(src->_userdata), _user_delete copied"))
    return "".join(out)
