"""json_object.c / arraylist.c facts used by the ownership model (Model/Heap.lean, Props/C05.lean):
the initial reference count, and the shape of the paths on which a container drops a child reference."""
import re
from structure import strip_c_comments, func_body, read, nat, lit, find_int


def _b(x):
    return "true" if x else "false"


def facts(repo, cfg):
    out = []
    jo = strip_c_comments(read(repo, "json_object.c"))
    b_new = func_body(jo, "json_object_new")
    out.append(nat("heapNewRefCount", find_int(b_new, r"jso->_ref_count\s*=\s*(\d+)\s*;"),
                   "json_object_new: jso->_ref_count = N"))
    # json_object_put: the user delete callback is invoked before the type-specific teardown
    b_put = func_body(jo, "json_object_put")
    i_cb = b_put.find("_user_delete(")
    i_sw = b_put.find("switch")
    out.append(lit("heapPutCallbackFirst", "Bool", _b(0 <= i_cb < i_sw),
                   "json_object_put: _user_delete(...) precedes the switch on o_type"))
    out.append(nat("heapPutReturnsFreed", find_int(b_put[i_sw:] if i_sw >= 0 else "", r"return\s+(\d+)\s*;"),
                   "json_object_put: value returned after the teardown"))
    # json_object_object_add_ex, existing-entry path:
    #   existing_value = lh_entry_v(existing_entry); if (existing_value) json_object_put(existing_value);
    #   lh_entry_set_val(existing_entry, val); return 0;
    b_add = func_body(jo, "json_object_object_add_ex")
    # local names are irrelevant: VAR = (json_object *)lh_entry_v(ENT); ... lh_entry_set_val(ENT, ...)
    m0 = re.search(r"(\w+)\s*=\s*\(\s*(?:struct\s+)?json_object\s*\*\s*\)\s*lh_entry_v\s*\(\s*(\w+)\s*\)\s*;", b_add)
    m1 = re.search(r"lh_entry_set_val\s*\(\s*%s\s*," % re.escape(m0.group(2)), b_add) if m0 else None
    if m0 and m1 and m0.end() < m1.start():
        var = re.escape(m0.group(1))
        mid = b_add[m0.end():m1.start()]
        out.append(lit("heapAddExPutsExisting", "Bool",
                       _b(re.search(r"if\s*\(\s*%s\s*\)\s*json_object_put\s*\(\s*%s\s*\)\s*;" % (var, var), mid) is not None),
                       "json_object_object_add_ex: if (old) json_object_put(old) before lh_entry_set_val"))
        out.append(nat("heapAddExReturnsBeforeSet", len(re.findall(r"\breturn\b", mid)),
                       "json_object_object_add_ex: return statements between reading the old value and lh_entry_set_val"))
    else:
        out.append(lit("heapAddExPutsExisting", "Bool", "false", "NOT FOUND in source"))
        out.append(nat("heapAddExReturnsBeforeSet", None, "existing-entry path of json_object_object_add_ex"))
    # json_object_set_userdata: previous callback invoked before the fields are overwritten
    b_ud = func_body(jo, "json_object_set_userdata")
    i1 = b_ud.find("_user_delete(")
    i2 = b_ud.find("jso->_user_delete =")
    out.append(lit("heapSetUserdataCallsOld", "Bool", _b(0 <= i1 < i2),
                   "json_object_set_userdata: old _user_delete(...) runs before the assignment"))
    al = strip_c_comments(read(repo, "arraylist.c"))
    b_pi = func_body(al, "array_list_put_idx")
    out.append(lit("heapPutIdxClearsGap", "Bool",
                   _b(re.search(r"memset\s*\(\s*arr->array\s*\+\s*arr->length\s*,\s*0\s*,\s*\(\s*idx\s*-\s*arr->length\s*\)\s*\*\s*sizeof", b_pi) is not None),
                   "array_list_put_idx: memset(arr->array + arr->length, 0, (idx - arr->length) * sizeof(void *))"))
    return "".join(out)
