"""printbuf.c facts"""
import re
from structure import strip_c_comments, func_body, read, nat, find_int


def facts(repo, cfg):
    out = []
    pb = strip_c_comments(read(repo, "printbuf.c"))
    b_new = func_body(pb, "printbuf_new")
    out.append(nat("pbInitSize", find_int(b_new, r"p->size\s*=\s*(\d+)\s*;"), "printbuf_new: p->size = N"))
    b_ext = func_body(pb, "printbuf_extend")
    out.append(nat("pbExtendSlack", find_int(b_ext, r"min_size\s*\+\s*(\d+)"), "printbuf_extend: min_size + N"))
    out.append(nat("pbExtendGuard", find_int(b_ext, r"min_size\s*>\s*INT_MAX\s*-\s*(\d+)"), "printbuf_extend: min_size > INT_MAX - N"))
    b_spr = func_body(pb, "sprintbuf")
    out.append(nat("sprintbufStack", find_int(b_spr, r"char\s+buf\s*\[\s*(\d+)\s*\]"), "sprintbuf: char buf[N]"))
    m = re.search(r"size\s*>\s*(\d+)", b_spr)
    m2 = re.search(r"size\s*>\s*\(?\s*(?:\(int\)\s*)?sizeof\s*\(?\s*buf\s*\)?\s*\)?\s*(-\s*1)?", b_spr)
    thr = int(m.group(1)) if m else None
    if thr is None and m2:
        st = find_int(b_spr, r"char\s+buf\s*\[\s*(\d+)\s*\]")
        thr = (st - 1) if (m2.group(1) and st) else st
    out.append(nat("sprintbufHeapAbove", thr, "sprintbuf: heap path when size > N"))
    return "".join(out)
