"""json_pointer.c facts (C12): the unescape calls in source order, how an index token is converted,
the guards of is_valid_index, how the printf-style variants obtain their formatted string."""
import re
from structure import strip_c_comments, func_body, read, lit

CALL = re.compile(r'string_replace_all_occurrences_with_char\s*\(\s*\w+\s*,\s*"((?:[^"\\]|\\.)*)"\s*,\s*\'((?:[^\'\\]|\\.)+)\'\s*\)')


def c_unescape(s):
    return bytes(s, "latin-1").decode("unicode_escape").encode("latin-1")


def calls_lit(body):
    """[(occur bytes, replacement byte)] in source order as Lean text, or None"""
    cs = CALL.findall(body)
    if not cs:
        return None
    items = []
    for occ, rep in cs:
        o, r = c_unescape(occ), c_unescape(rep)
        if len(r) != 1:
            return None
        items.append("([%s], %d)" % (", ".join(str(b) for b in o), r[0]))
    return "[" + ", ".join(items) + "]"


def boolean(b):
    return "true" if b else "false"


def facts(repo, cfg):
    src = strip_c_comments(read(repo, "json_pointer.c"))
    out = []
    g = func_body(src, "json_pointer_get_single_path")
    s = func_body(src, "json_pointer_set_single_path")
    out.append(lit("ptrGetUnescape", "List (List UInt8 × UInt8)", calls_lit(g) or "[]",
                   "json_pointer_get_single_path: string_replace_all_occurrences_with_char calls, in order"))
    out.append(lit("ptrSetUnescape", "List (List UInt8 × UInt8)", calls_lit(s) or "[]",
                   "json_pointer_set_single_path: string_replace_all_occurrences_with_char calls, in order"))
    # the unescape in set works on a private copy of the token (strdup) and the copy is what is added
    out.append(lit("ptrSetUnescapesCopy", "Bool",
                   boolean(bool(re.search(r"key\s*=\s*strdup\s*\(\s*path\s*\)", s)) and
                           bool(re.search(r"json_object_object_add\s*\(\s*parent\s*,\s*key\s*,\s*value\s*\)", s))),
                   "set_single_path: key = strdup(path); ...; json_object_object_add(parent, key, value)"))
    v = func_body(src, "is_valid_index")
    out.append(lit("ptrIndexRejectsEmpty", "Bool",
                   boolean(bool(re.search(r"if\s*\(\s*len\s*==\s*0\s*\)\s*\{[^}]*return\s+0\s*;", v))),
                   "is_valid_index: if (len == 0) { errno = EINVAL; return 0; }"))
    out.append(lit("ptrIndexRejectsLeadingZero", "Bool",
                   boolean(bool(re.search(r"if\s*\(\s*path\s*\[\s*0\s*\]\s*==\s*'0'\s*\)\s*\{[^}]*return\s+0\s*;", v))),
                   "is_valid_index: if (path[0] == '0') { errno = EINVAL; return 0; } (after the len == 1 case)"))
    out.append(lit("ptrIndexUsesStrtoull", "Bool",
                   boolean(bool(re.search(r"\*\s*idx\s*=\s*strtoull\s*\(\s*path\s*,\s*NULL\s*,\s*10\s*\)\s*;", v)) and
                           not re.search(r"\*\s*10\b", v)),
                   "is_valid_index: *idx = strtoull(path, NULL, 10) and no hand-rolled `* 10` conversion"))
    # array element fetched without a NULL test (a JSON null element is a valid target)
    m = re.search(r"json_object_array_get_idx\s*\(\s*obj\s*,\s*\*\s*idx\s*\)\s*;(.*?)return\s+0\s*;", g, re.S)
    out.append(lit("ptrNullElementIsTarget", "Bool",
                   boolean(bool(m) and not re.search(r"if\s*\(\s*!?\s*obj\s*\)", m.group(1))),
                   "get_single_path: obj = json_object_array_get_idx(obj, *idx); if (value) *value = obj; return 0;"))
    gf = func_body(src, "json_pointer_getf")
    sf = func_body(src, "json_pointer_setf")
    heap = all(re.search(r"\bvasprintf\s*\(\s*&\s*path_copy\s*,\s*path_fmt\s*,\s*args\s*\)", b) and
               not re.search(r"\bchar\s+\w+\s*\[", b) and not re.search(r"\bv?snprintf\s*\(", b) for b in (gf, sf))
    out.append(lit("ptrFmtViaVasprintf", "Bool", boolean(heap),
                   "getf/setf: vasprintf(&path_copy, path_fmt, args); no fixed-size buffer, no (v)snprintf"))
    return "".join(out)
