#!/usr/bin/env python3
"""c2lean.py - a translator from a subset of C to Lean 4 (DESIGN.md section 0.8).

For each function listed in FUNCTIONS the typed AST that clang produces for /repo's *current* source
(`clang -Xclang -ast-dump=json`, macros expanded, implicit conversions explicit) is translated into a Lean
definition `JsonC.Translated.<fn>` over `Int`, in the `Outcome` monad of "checked C":

  * every local variable, parameter and memory location named by a fixed access path (`p->size`, `arr->length`,
    `errno`, `jsoint->cint` ...) is a Lean variable; C assignment is shadowing (`let x := ..`), so the generated
    text is in SSA form by construction; control flow (if / else, early return, switch without fall-through,
    `&&` `||` `?:` with their short-circuit order) is translated structurally, with join points hoisted into
    auxiliary definitions `<fn>.j<k>`;
  * integer arithmetic follows the C type of every node: signed overflow, division by zero, an over-wide shift are
    `Outcome.fault` (UB); unsigned arithmetic and conversions wrap (`CSem.wrapU`); conversions to a narrower signed
    type wrap as gcc and clang define them;
  * a pointer is an abstract address (an `Int`; 0 = NULL; pointer arithmetic is address arithmetic scaled by the
    element size) - only its null-ness and its use as an argument are observable;
  * what the function does to the rest of the world is recorded as an ordered trace of events: calls of functions
    outside the translated function (`realloc`, `memcpy`, `printbuf_extend` ...) with their argument values,
    stores through computed addresses (`p->buf[p->bpos] = 0` is `store1 [p_buf + p_bpos, 0]`);
  * what the rest of the world does to the function enters as parameters: the return value of every call site
    (`c<k>_<callee>`), the value of every load through a computed address (`m<k>_<what>`), and - for a call that is
    handed a pointer to a structure or to a local variable - the values its fields hold afterwards (`h<k>_<path>`,
    "havoc"; the theorems instantiate them with the callee's own translated results).

The result is the integer-and-effects semantics of the function exactly as written now.  `Lemmas/Translated*.lean`
prove that the hand-written models (`Model/Printbuf.lean`, `Model/Arraylist.lean`, `Model/Num.lean`) compute the same
results, for all arguments and states; so an edit of the C source that changes what one of these functions computes
changes the generated definition and breaks such a theorem on the next run.

Not supported (the function is then emitted as `def <fn>.untranslatable : String := "<why>"` and the theorems about it
stop compiling): loops, goto, switch with fall-through, floating point arithmetic, struct assignment, variadic calls'
va_list handling.
"""
import json, os, re, subprocess, sys

# (source file, function)
FUNCTIONS = [
    ("printbuf.c", "printbuf_extend"),
    ("printbuf.c", "printbuf_memappend"),
    ("printbuf.c", "printbuf_memset"),
    ("arraylist.c", "array_list_expand_internal"),
    ("arraylist.c", "array_list_shrink"),
    ("arraylist.c", "array_list_put_idx"),
    ("arraylist.c", "array_list_add"),
    ("arraylist.c", "array_list_insert_idx"),
    ("json_object.c", "json_object_int_inc"),
    # functions with one loop (translated as a recursive definition over explicit fuel)
    ("json_util.c", "_json_object_to_fd"),
    ("linkhash.c", "lh_table_lookup_entry_w_hash"),
    ("json_pointer.c", "is_valid_index"),
    ("arraylist.c", "array_list_del_idx"),
    ("json_util.c", "json_object_from_fd_ex"),
    ("json_tokener.c", "json_tokener_validate_utf8"),
    ("json_util.c", "json_parse_int64"),
    ("json_tokener.c", "json_tokener_new_ex"),
    ("printbuf.c", "printbuf_new"),
    ("arraylist.c", "array_list_new2"),
    ("json_object.c", "_json_object_set_string_len"),
    ("json_object.c", "json_object_get"),
    ("json_object.c", "json_object_put"),
    ("linkhash.c", "lh_table_delete_entry"),
    ("json_object.c", "json_object_get_boolean"),
    ("json_object.c", "json_object_get_string_len"),
    ("json_object.c", "_json_object_get_string_len"),
    ("arraylist.c", "array_list_get_idx"),
    ("json_tokener.c", "json_tokener_reset"),
    ("json_tokener.c", "json_tokener_reset_level"),
]


class Untranslatable(Exception):
    pass


LEAN_KEYWORDS = {"end", "at", "by", "do", "fun", "have", "from", "in", "let", "match", "then", "else", "if", "open", "where", "with",
                 "instance", "show", "this", "calc", "def", "theorem", "structure", "class", "namespace", "section", "variable",
                 "import", "export", "mutual", "deriving", "for", "unless", "return", "try", "catch", "finally", "macro", "syntax",
                 "notation", "prefix", "infix", "postfix", "set_option", "universe", "local", "private", "protected", "noncomputable",
                 "partial", "unsafe", "example", "abbrev", "axiom", "inductive", "extends", "Type", "Prop", "Sort", "fuel", "tr"}


def ident(name):
    """a C identifier as a Lean identifier"""
    return name + "_c" if name in LEAN_KEYWORDS else name


# ----------------------------------------------------------------------------- types
def ctype(t):
    """(kind, bits, signed): kind in I (integer), P (pointer), F (floating), V (void), R (record / other)"""
    q = t.get("desugaredQualType", t.get("qualType", ""))
    q = re.sub(r"\b(const|volatile|restrict|register)\b", "", q).strip()
    q = re.sub(r"\s+", " ", q)
    if q.endswith("*") or "(*)" in q or q.endswith("]"):
        return ("P", 64, False)
    table = {
        "int": (32, True), "signed int": (32, True), "unsigned int": (32, False), "unsigned": (32, False),
        "long": (64, True), "long long": (64, True), "unsigned long": (64, False), "unsigned long long": (64, False),
        "short": (16, True), "unsigned short": (16, False), "char": (8, True), "signed char": (8, True),
        "unsigned char": (8, False), "_Bool": (8, False),
        "int64_t": (64, True), "uint64_t": (64, False), "int32_t": (32, True), "uint32_t": (32, False),
        "size_t": (64, False), "ssize_t": (64, True), "uint8_t": (8, False),
    }
    if q in table:
        return ("I",) + table[q]
    if q.startswith("enum "):
        return ("I", 32, False)
    if q in ("double", "float", "long double"):
        return ("F", 64, True)
    if q == "void":
        return ("V", 0, False)
    return ("R", 0, False)


FIELD_OFFSETS = {}     # ("struct lh_entry", "k") -> 0, filled per function by resolve_offsets
RECORD_SIZES = {}      # "struct lh_entry" -> 40, filled per translation unit by resolve_sizes


def elem_size(t):
    """size of the pointee of pointer type t (for pointer arithmetic); None when unknown"""
    q = t.get("desugaredQualType", t.get("qualType", ""))
    q = re.sub(r"\b(const|volatile|restrict)\b", "", q).strip()
    if not q.endswith("*"):
        return None
    base = {"qualType": q[:-1].strip()}
    if re.sub(r"\s+", " ", base["qualType"]) in RECORD_SIZES:
        return RECORD_SIZES[re.sub(r"\s+", " ", base["qualType"])]
    if base["qualType"] == "void":
        return 1            # gcc extension
    k, bits, _ = ctype(base)
    if k in ("I", "P", "F"):
        return bits // 8
    return None


def rng(bits, signed):
    return (-(1 << (bits - 1)), (1 << (bits - 1)) - 1) if signed else (0, (1 << bits) - 1)


def lit(v):
    return str(v) if v >= 0 else "(%d)" % v


def is_lit(s):
    return re.fullmatch(r"\(?-?\d+\)?", s) is not None


def lit_val(s):
    return int(s.strip("()"))


IND = "  "


def indent(text, n=1):
    return "\n".join((IND * n + l) if l else l for l in text.split("\n"))


# ----------------------------------------------------------------------------- translator
class Fn:
    def __init__(self, ast, name, enumvals=None, is_identity=None):
        self.name = name
        self.enumvals = enumvals or {}
        self.is_identity = is_identity or (lambda fn: False)   # callee is `static inline T *f(U *p) { return (void *)p; }`
        self.in_loop = False      # inside the body of the (single-level) loop being translated
        self.no_hoist = False
        self.loop_brk = None
        self.loop_cnt = None
        self.fn_inputs = set()    # inputs created inside a loop: one value per iteration (Nat -> Int)
        self.nloops = 0
        self.ast = ast
        self.params = []          # (lean name, ctype) of the C parameters
        self.inputs = []          # (lean name, ctype, comment): memory reads, call results, havoc values, in order of creation
        self.memvars = {}         # access path -> ctype, every memory location named by a fixed path
        self.written = []         # memory paths assigned or havocked (fields of Out), in order
        self.joins = []           # (name, [vars], text)
        self.counter = 0
        self.site = 0
        self.locals = {}          # local variable name -> ctype

    # -- names
    def fresh(self, prefix, what):
        self.counter += 1
        return "%s%d_%s" % (prefix, self.counter, re.sub(r"[^A-Za-z0-9_]", "_", what))

    def new_input(self, prefix, what, ty, comment):
        """a value the outside world supplies; inside a loop there is one per iteration"""
        nm = self.fresh(prefix, what)
        self.inputs.append((nm, ty, comment + (" (one value per iteration of the loop)" if self.in_loop else "")))
        if self.in_loop:
            self.fn_inputs.add(nm)
            return "(%s c2l_it)" % nm
        return nm

    def path_of(self, n):
        """fixed access path of an lvalue expression, or None: x, p->f, p->f.g, *p (p a parameter), errno"""
        k = n["kind"]
        if k == "ParenExpr":
            return self.path_of(n["inner"][0])
        if k == "DeclRefExpr":
            return ident(n["referencedDecl"]["name"])
        if k == "CallExpr" and self.is_identity(self.callee_name(n)) and len(n["inner"]) == 2:
            arg = n["inner"][1]
            while arg["kind"] in ("ImplicitCastExpr", "ParenExpr", "CStyleCastExpr"):
                arg = arg["inner"][0]
            return self.path_of(arg)
        if k == "MemberExpr":
            base = n["inner"][0]
            while base["kind"] in ("ImplicitCastExpr", "ParenExpr") and base.get("castKind", "LValueToRValue") in ("LValueToRValue", "NoOp"):
                base = base["inner"][0]
            bp = self.path_of(base)
            if bp is None:
                return None
            # a member of a union names the union's storage itself (all members alias)
            bt = base.get("type", {}).get("desugaredQualType", base.get("type", {}).get("qualType", ""))
            if bt.startswith("union ") or " union " in bt or self.is_union_member_access(n):
                return bp
            return bp + "_" + n["name"]
        if k == "UnaryOperator" and n["opcode"] == "*":
            inner = n["inner"][0]
            while inner["kind"] in ("ImplicitCastExpr", "ParenExpr"):
                inner = inner["inner"][0]
            if inner["kind"] == "CallExpr" and self.callee_name(inner) == "__errno_location":
                return "errno"
            if inner["kind"] == "DeclRefExpr":
                return "deref_" + ident(inner["referencedDecl"]["name"])
        return None

    def is_union_member_access(self, n):
        base = n["inner"][0]
        t = base.get("type", {})
        q = t.get("desugaredQualType", t.get("qualType", ""))
        return bool(re.match(r"^(const )?union\b", q)) or "(unnamed union" in q or "(anonymous union" in q

    def callee_name(self, call):
        f = call["inner"][0]
        while f["kind"] in ("ImplicitCastExpr", "ParenExpr"):
            f = f["inner"][0]
        if f["kind"] == "DeclRefExpr":
            return f["referencedDecl"]["name"]
        if f["kind"] == "MemberExpr":
            return "via_" + f["name"]
        return "indirect"

    # -- arithmetic helpers (text level, constant folding)
    def wrap(self, term, ty):
        k, bits, signed = ty
        if k != "I":
            return term
        lo, hi = rng(bits, signed)
        if is_lit(term):
            v = lit_val(term)
            m = 1 << bits
            v = ((v - lo) % m) + lo
            return lit(v)
        # written out (rather than CSem.wrapU / wrapS) so that `omega` and `rw` see the arithmetic as it is
        if signed:
            return "((%s + %d) %% %d - %d)" % (self.atom(term), 1 << (bits - 1), 1 << bits, 1 << (bits - 1))
        return "(%s %% %d)" % (self.atom(term), 1 << bits)

    def site_name(self, what):
        self.site += 1
        return "\"%s#%d %s\"" % (self.name, self.site, what)

    # -- expressions, in continuation-passing style: k(term, env) -> text
    def ex(self, n, env, k):
        kind = n["kind"]
        ty = ctype(n.get("type", {}))
        if kind in ("ParenExpr", "ConstantExpr"):
            return self.ex(n["inner"][0], env, k)
        if ty[0] == "F" and kind not in ("CallExpr",):
            # floating point is outside the translated semantics: the value of a floating expression is an input of the
            # function (what the theorems say holds for every value of it)
            return k(self.new_input("f", "float", ("I", 64, True), "value of a floating-point expression (opaque)"), env)
        if kind in ("ImplicitCastExpr", "CStyleCastExpr") and n.get("castKind") == "FloatingToIntegral":
            return k(self.new_input("f", "fcast", ty, "result of a floating-point to integer conversion (opaque; its definedness is not checked here)"), env)
        if kind in ("ImplicitCastExpr", "CStyleCastExpr") and n.get("castKind") == "FloatingToBoolean":
            return k(self.new_input("f", "fbool", ("I", 32, True), "truth value of a floating-point expression (opaque)"), env)
        if kind == "IntegerLiteral":
            return k(lit(int(n["value"])), env)
        if kind == "StmtExpr":
            # GNU statement expression ( glibc's assert: __extension__ ({ if (e) ; else __assert_fail(..); }) ): its statements,
            # then the continuation (the value of the forms met here is void)
            return self.stmts([n["inner"][0]], env, lambda e: k("0", e), None)
        if kind == "StringLiteral":
            # the address of a string literal: some fixed non-null address (only its identity matters)
            return k("(CSem.addrOf %s)" % json.dumps(re.sub(r"[^ -~]", "?", n.get("value", "\"\"").strip('"'))[:40]), env)
        if kind == "CharacterLiteral":
            return k(lit(int(n["value"])), env)
        if kind == "UnaryExprOrTypeTraitExpr":
            if n.get("name") == "sizeof":
                at = n.get("argType") or (n["inner"][0].get("type") if n.get("inner") else None)
                m = re.fullmatch(r"(?:const )?(?:unsigned |signed )?char ?\[(\d+)\]", (at or {}).get("desugaredQualType", (at or {}).get("qualType", "")))
                if m:
                    return k(lit(int(m.group(1))), env)
                kk, bits, _ = ctype(at)
                if kk in ("I", "P", "F") and bits:
                    return k(lit(bits // 8), env)
                rq = re.sub(r"\s+", " ", re.sub(r"\b(const|volatile)\b", "", (at or {}).get("desugaredQualType", (at or {}).get("qualType", ""))).strip())
                if rq in RECORD_SIZES:
                    return k(lit(RECORD_SIZES[rq]), env)
            raise Untranslatable("sizeof of a type whose size the translator does not know")
        if kind == "ImplicitCastExpr" or kind == "CStyleCastExpr":
            ck = n.get("castKind")
            sub = n["inner"][0]
            if ck == "LValueToRValue":
                return self.load(sub, env, k)
            if ck in ("NoOp", "BitCast", "FunctionToPointerDecay", "ArrayToPointerDecay", "NullToPointer", "PointerToIntegral", "IntegralToPointer", "ToVoid"):
                if ck == "NullToPointer":
                    return k("0", env)
                if ck == "ToVoid":
                    return self.ex(sub, env, lambda t, e: k("0", e))
                if ck == "IntegralToPointer":
                    # (void *)-1 is the all-ones address
                    return self.ex(sub, env, lambda t, e: k(self.wrap(t, ("I", 64, False)), e))
                if ck == "PointerToIntegral":
                    return self.ex(sub, env, lambda t, e: k(self.wrap(t, ty) if ty[0] == "I" and ty[1:] != (64, False) else t, e))
                return self.ex(sub, env, k)
            if ck == "IntegralCast":
                st = ctype(sub.get("type", {}))
                def conv(t, e):
                    if st[0] == "I" and ty[0] == "I":
                        slo, shi = rng(st[1], st[2]); dlo, dhi = rng(ty[1], ty[2])
                        if dlo <= slo and shi <= dhi:
                            return k(t, e)          # value-preserving
                    return k(self.wrap(t, ty), e)
                return self.ex(sub, env, conv)
            if ck in ("IntegralToBoolean", "PointerToBoolean"):
                return self.ex(sub, env, lambda t, e: k("(if %s ≠ 0 then 1 else 0)" % t, e))
            raise Untranslatable("cast kind %s" % ck)
        if kind == "DeclRefExpr":
            # a function or array designator used as a value: an abstract address
            nm = n["referencedDecl"]["name"]
            if n["referencedDecl"].get("kind") == "EnumConstantDecl":
                if nm not in self.enumvals:
                    raise Untranslatable("enum constant of unknown value: " + nm)
                return k(lit(self.enumvals[nm]), env)
            return k("(CSem.addrOf \"%s\")" % nm, env)
        if kind == "UnaryOperator":
            return self.unary(n, env, k)
        if kind == "BinaryOperator":
            return self.binary(n, env, k)
        if kind == "CompoundAssignOperator":
            return self.compound_assign(n, env, k)
        if kind == "ConditionalOperator":
            c, a, b = n["inner"]
            kt = self.hoistk(k, env)
            return self.cond(c, env, lambda e: self.ex(a, e, kt), lambda e: self.ex(b, e, kt))
        if kind == "CallExpr":
            return self.call(n, env, k)
        if kind in ("MemberExpr", "ArraySubscriptExpr"):
            # an lvalue used without conversion (e.g. operand of &): its address
            return self.addr(n, env, k)
        raise Untranslatable("expression kind %s" % kind)

    def hoistk(self, k, env):
        """make a continuation that is about to be used twice cheap to duplicate (it is generated once)"""
        probe = k("«v»", env)
        if len(probe) < 160 or self.no_hoist:
            return lambda t, e: probe.replace("«v»", self.atom(t))
        jn = "%s.j%d" % (self.name, len(self.joins) + 1)
        vars_ = list(env)
        self.joins.append((jn, ["v"] + vars_, probe.replace("«v»", "v")))
        return lambda t, e: "%s %s" % (jn, " ".join([self.atom(t)] + vars_))

    def atom(self, t):
        return t if re.fullmatch(r"[A-Za-z_][A-Za-z0-9_.']*|\d+|\(.*\)", t) and t.count("(") == t.count(")") and not self._split_paren(t) else "(" + t + ")"

    def _split_paren(self, t):
        # "(a) + (b)" starts with ( and ends with ) but is not one group
        if not t.startswith("("):
            return False
        d = 0
        for i, c in enumerate(t):
            if c == "(":
                d += 1
            elif c == ")":
                d -= 1
                if d == 0 and i != len(t) - 1:
                    return True
        return False

    # -- loads and stores
    def load(self, lv, env, k):
        p = self.path_of(lv)
        ty = ctype(lv.get("type", {}))
        if p is not None:
            if p not in env:
                if p in self.locals:
                    raise Untranslatable("read of the uninitialised local " + p)
                self.declare_mem(p, lv, env)
            if ty[0] == "I" and self.memvars.get(p, ty)[0] == "U":
                # union storage: kept as the unsigned 64-bit pattern, reinterpreted by the member's type
                return k(p if ty[1:] == (64, False) else self.wrap(p, ty), env)
            return k(p, env)
        # load through a computed address: an input of the function
        def got(a, e):
            nm = self.new_input("m", self.describe(lv), ty, "value loaded from %s" % self.describe(lv))
            sz = {8: 1, 16: 2, 32: 4, 64: 8}.get(ty[1], 0)
            return self.event("load%d" % sz, [a], e, lambda e2: k(nm, e2))
        return self.addr(lv, env, got)

    def declare_mem(self, p, lv, env):
        ty = ctype(lv.get("type", {}))
        if lv["kind"] == "MemberExpr" and self.is_union_member_access(lv):
            ty = ("U", 64, False)
        self.memvars[p] = ty
        env.append(p)

    def describe(self, lv):
        k = lv["kind"]
        if k == "ArraySubscriptExpr":
            return (self.path_of(self.strip(lv["inner"][0])) or "ptr") + "_elem"
        if k == "UnaryOperator":
            return "deref"
        if k == "MemberExpr":
            return "member_" + lv["name"]
        return "mem"

    def strip(self, n):
        while n["kind"] in ("ImplicitCastExpr", "ParenExpr", "CStyleCastExpr"):
            n = n["inner"][0]
        return n

    def addr(self, lv, env, k):
        """address of an lvalue that has no fixed path"""
        kind = lv["kind"]
        if kind == "ParenExpr":
            return self.addr(lv["inner"][0], env, k)
        if kind == "ArraySubscriptExpr":
            base, idx = lv["inner"]
            es = elem_size(base.get("type", {}))
            if es is None:
                raise Untranslatable("array element of unknown size")
            return self.ex(base, env, lambda tb, e: self.ex(idx, e, lambda ti, e2: k(self.addr_add(tb, ti, es), e2)))
        if kind == "UnaryOperator" and lv["opcode"] == "*":
            return self.ex(lv["inner"][0], env, k)
        if kind == "MemberExpr":
            base = lv["inner"][0]
            bt = base.get("type", {})
            bq = re.sub(r"\s+", " ", re.sub(r"\b(const|volatile)\b", "", bt.get("desugaredQualType", bt.get("qualType", ""))).strip())
            rec = bq[:-1].strip() if lv.get("isArrow") and bq.endswith("*") else bq
            off = 0 if rec.startswith("union ") else FIELD_OFFSETS.get((rec, lv["name"]))
            if off is not None:
                # the address of the member: the record's address plus the member's offset as clang lays it out
                if lv.get("isArrow"):
                    return self.ex(base, env, lambda tb, e: k(tb if off == 0 else "%s + %d" % (self.atom(tb), off), e))
                return self.addr(self.strip(base), env, lambda tb, e: k(tb if off == 0 else "%s + %d" % (self.atom(tb), off), e))
            return self.ex(base, env, lambda tb, e: k("(CSem.field %s \"%s\")" % (self.atom(tb), lv["name"]), e))
        p = self.path_of(lv)
        if p is not None:
            return k("(CSem.addrOf \"%s\")" % p, env)
        raise Untranslatable("address of expression kind %s" % kind)

    def addr_add(self, tb, ti, es):
        if es == 1:
            return "%s + %s" % (self.atom(tb), self.atom(ti))
        return "%s + %s * %d" % (self.atom(tb), self.atom(ti), es)

    def store(self, lv, term, env, k):
        """assign term (already converted to the lvalue's type) to lvalue; k(env)"""
        p = self.path_of(lv)
        ty = ctype(lv.get("type", {}))
        if p is not None:
            if p not in env and p not in self.locals:
                self.declare_mem(p, lv, env)        # becomes an input too (harmless) so that Out can mention it
            if p not in self.locals and p not in self.written:
                self.written.append(p)
            if self.memvars.get(p, ty)[0] == "U":
                term = self.wrap(term, ("I", 64, False))
            env2 = env if p in env else env + [p]
            return "let %s : Int := %s\n%s" % (p, term, k(env2))
        sz = {8: 1, 16: 2, 32: 4, 64: 8}.get(ty[1], 0)
        return self.addr(lv, env, lambda a, e: self.event("store%d" % sz, [a, term], e, k))

    def event(self, name, args, env, k):
        return "let tr := tr ++ [(\"%s\", [%s])]\n%s" % (name, ", ".join(args), k(env))

    # -- operators
    def unary(self, n, env, k):
        op = n["opcode"]
        ty = ctype(n.get("type", {}))
        sub = n["inner"][0]
        if op == "!":
            return self.cond(n, env, lambda e: k("1", e), lambda e: k("0", e))
        if op == "-":
            def neg(t, e):
                if is_lit(t):
                    return k(self.wrap(lit(-lit_val(t)), ty), e)
                if ty[2]:
                    v = self.fresh("v", "neg")
                    return "CSem.ckS %d (-%s) %s >>= fun %s =>\n%s" % (ty[1], self.atom(t), self.site_name("negation"), v, k(v, e))
                return k(self.wrap("-" + self.atom(t), ty), e)
            return self.ex(sub, env, neg)
        if op in ("+", "__extension__"):
            return self.ex(sub, env, k)
        if op == "~":
            return self.ex(sub, env, lambda t, e: k(self.wrap(lit(-lit_val(t) - 1) if is_lit(t) else "(-%s - 1)" % self.atom(t), ty), e))
        if op == "*":
            return self.load(n, env, k)
        if op == "&":
            inner = self.strip(sub)
            return self.addr(inner, env, k) if self.path_of(inner) is None else k("(CSem.addrOf \"%s\")" % self.path_of(inner), env)
        if op in ("++", "--"):
            post = not n.get("isPostfix") is False and n.get("isPostfix", False)
            delta = "1" if op == "++" else "(-1)"
            sty = ctype(sub.get("type", {}))
            def upd(old, e):
                # the old value is bound to a name of its own: after the store the variable's name means the new value
                tmp = self.fresh("v", "old")
                def stored(new, e2):
                    nv = self.fresh("v", "new")
                    return "let %s : Int := %s\n%s" % (nv, new, self.store(sub, nv, e2, lambda e3: k(tmp if post else nv, e3)))
                return "let %s : Int := %s\n%s" % (tmp, old, self.arith("+", tmp, delta, sty, e, stored))
            return self.load(sub, env, upd)
        raise Untranslatable("unary operator " + op)

    def arith(self, op, a, b, ty, env, k, es=None):
        """a op b in C type ty -> k(term, env)"""
        kk, bits, signed = ty
        if kk == "P":
            # pointer +/- integer: address arithmetic
            if op in ("+", "-"):
                scale = es or 1
                bb = b if scale == 1 else "%s * %d" % (self.atom(b), scale)
                return k("%s %s %s" % (self.atom(a), op, self.atom(bb)), env)
            raise Untranslatable("pointer operator " + op)
        if kk != "I":
            raise Untranslatable("arithmetic on a non-integer type")
        lo, hi = rng(bits, signed)
        if op in ("+", "-", "*"):
            if is_lit(a) and is_lit(b):
                v = {"+": lit_val(a) + lit_val(b), "-": lit_val(a) - lit_val(b), "*": lit_val(a) * lit_val(b)}[op]
                if lo <= v <= hi:
                    return k(lit(v), env)
            raw = "%s %s %s" % (self.atom(a), op, self.atom(b))
            if signed:
                v = self.fresh("v", {"+": "add", "-": "sub", "*": "mul"}[op])
                return "CSem.ckS %d (%s) %s >>= fun %s =>\n%s" % (bits, raw, self.site_name("signed " + op), v, k(v, env))
            return k(self.wrap(raw, ty), env)
        if op in ("/", "%"):
            if is_lit(a) and is_lit(b) and lit_val(b) != 0:
                x, y = lit_val(a), lit_val(b)
                q = abs(x) // abs(y) * (1 if (x >= 0) == (y >= 0) else -1)
                r = x - q * y
                return k(lit(q if op == "/" else r), env)
            v = self.fresh("v", "div" if op == "/" else "mod")
            fn = "CSem.cdiv" if op == "/" else "CSem.cmod"
            return "%s %d %s %s %s %s >>= fun %s =>\n%s" % (fn, bits, "true" if signed else "false", self.atom(a), self.atom(b), self.site_name("division"), v, k(v, env))
        if op in ("<<", ">>"):
            if is_lit(b) and 0 <= lit_val(b) < bits:
                s = lit_val(b)
                if op == "<<":
                    raw = "%s * %d" % (self.atom(a), 1 << s)
                    if signed and is_lit(a) and 0 <= lit_val(a) and (lit_val(a) << s) <= hi:
                        return k(lit(lit_val(a) << s), env)
                    if signed:
                        v = self.fresh("v", "shl")
                        return "CSem.ckShlS %d %s %d %s >>= fun %s =>\n%s" % (bits, self.atom(a), s, self.site_name("signed <<"), v, k(v, env))
                    return k(self.wrap(raw, ty), env)
                return k("(%s / %d)" % (self.atom(a), 1 << s), env)     # Int./ rounds down: arithmetic shift
            v = self.fresh("v", "sh")
            return "CSem.cshift %d %s %s %s %s %s >>= fun %s =>\n%s" % (bits, "true" if signed else "false", "true" if op == "<<" else "false", self.atom(a), self.atom(b), self.site_name("shift"), v, k(v, env))
        if op in ("&", "|", "^"):
            f = {"&": "CSem.band", "|": "CSem.bor", "^": "CSem.bxor"}[op]
            return k("(%s %d %s %s %s)" % (f, bits, "true" if signed else "false", self.atom(a), self.atom(b)), env)
        raise Untranslatable("binary operator " + op)

    def binary(self, n, env, k):
        op = n["opcode"]
        ty = ctype(n.get("type", {}))
        a, b = n["inner"]
        if op == "=":
            def assign(t, e):
                if is_lit(t) or re.fullmatch(r"[A-Za-z_][A-Za-z0-9_]*", t):
                    return self.store(a, t, e, lambda e2: k(t, e2))
                # the value of the assignment is bound before the store (its text may mention the variable assigned)
                nv = self.fresh("v", "val")
                return "let %s : Int := %s\n%s" % (nv, t, self.store(a, nv, e, lambda e2: k(nv, e2)))
            return self.ex(b, env, assign)
        if op == ",":
            return self.ex(a, env, lambda _, e: self.ex(b, e, k))
        if op in ("&&", "||", "<", ">", "<=", ">=", "==", "!="):
            kk = self.hoistk(k, env)
            return self.cond(n, env, lambda e: kk("1", e), lambda e: kk("0", e))
        es = None
        if ty[0] == "P":
            # pointer + int (either order) or pointer - int
            if ctype(a.get("type", {}))[0] != "P":
                a, b = b, a
            es = elem_size(n.get("type", {}))
            if es is None:
                raise Untranslatable("pointer arithmetic on elements of unknown size")
        elif ctype(a.get("type", {}))[0] == "P" and ctype(b.get("type", {}))[0] == "P" and op == "-":
            es0 = elem_size(a.get("type", {}))
            if es0 is None:
                raise Untranslatable("pointer difference of unknown element size")
            return self.ex(a, env, lambda ta, e: self.ex(b, e, lambda tb, e2: k("((%s - %s) / %d)" % (self.atom(ta), self.atom(tb), es0), e2)))
        return self.ex(a, env, lambda ta, e: self.ex(b, e, lambda tb, e2: self.arith(op, ta, tb, ty, e2, k, es)))

    def compound_assign(self, n, env, k):
        op = n["opcode"][:-1]
        lv, rhs = n["inner"]
        lty = ctype(lv.get("type", {}))
        cty = ctype(n.get("computeResultType", n.get("type", {})))
        def go(old, e):
            def go2(tr_, e2):
                oldc = old
                if lty != cty and lty[0] == "I" and cty[0] == "I":
                    slo, shi = rng(lty[1], lty[2]); dlo, dhi = rng(cty[1], cty[2])
                    if not (dlo <= slo and shi <= dhi):
                        oldc = self.wrap(old, cty)
                es = elem_size(lv.get("type", {})) if lty[0] == "P" else None
                def fin(res, e3):
                    if lty != cty and lty[0] == "I":
                        res = self.wrap(res, lty)
                    nv = self.fresh("v", "val")
                    return "let %s : Int := %s\n%s" % (nv, res, self.store(lv, nv, e3, lambda e4: k(nv, e4)))
                return self.arith(op, oldc, tr_, cty if lty[0] != "P" else lty, e2, fin, es)
            return self.ex(rhs, e, go2)
        return self.load(lv, env, go)

    # -- conditions: kt(env) / kf(env) -> text
    def cond(self, n, env, kt, kf):
        kind = n["kind"]
        if kind in ("ParenExpr", "ConstantExpr"):
            return self.cond(n["inner"][0], env, kt, kf)
        if kind == "ImplicitCastExpr" and n.get("castKind") in ("IntegralToBoolean", "PointerToBoolean", "NoOp"):
            return self.cond(n["inner"][0], env, kt, kf)
        if kind == "ImplicitCastExpr" and n.get("castKind") == "IntegralCast" and n["inner"][0]["kind"] in ("BinaryOperator", "UnaryOperator", "ParenExpr") \
                and ctype(n["inner"][0].get("type", {}))[:2] == ("I", 32):
            inner = self.strip(n["inner"][0])
            if inner["kind"] == "BinaryOperator" and inner["opcode"] in ("&&", "||", "<", ">", "<=", ">=", "==", "!=") or \
               inner["kind"] == "UnaryOperator" and inner["opcode"] == "!":
                return self.cond(inner, env, kt, kf)
        if kind == "UnaryOperator" and n["opcode"] == "!":
            return self.cond(n["inner"][0], env, kf, kt)
        if kind == "BinaryOperator" and n["opcode"] == "&&":
            kf2 = self.hoist0(kf, env)
            return self.cond(n["inner"][0], env, lambda e: self.cond(n["inner"][1], e, kt, kf2), kf2)
        if kind == "BinaryOperator" and n["opcode"] == "||":
            kt2 = self.hoist0(kt, env)
            return self.cond(n["inner"][0], env, kt2, lambda e: self.cond(n["inner"][1], e, kt2, kf))
        if kind == "BinaryOperator" and n["opcode"] in ("<", ">", "<=", ">=", "==", "!=") and \
                (ctype(n["inner"][0].get("type", {}))[0] == "F" or ctype(n["inner"][1].get("type", {}))[0] == "F"):
            v = self.new_input("f", "fcmp", ("I", 32, True), "verdict of a floating-point comparison (opaque)")
            return self.ite("%s ≠ 0" % self.atom(v), kt(env), kf(env))
        if kind == "BinaryOperator" and n["opcode"] in ("<", ">", "<=", ">=", "==", "!="):
            lop = {"<": "<", ">": ">", "<=": "≤", ">=": "≥", "==": "=", "!=": "≠"}[n["opcode"]]
            a, b = n["inner"]
            return self.ex(a, env, lambda ta, e: self.ex(b, e, lambda tb, e2: self.ite("%s %s %s" % (self.atom(ta), lop, self.atom(tb)), kt(e2), kf(e2))))
        return self.ex(n, env, lambda t, e: self.ite("%s ≠ 0" % self.atom(t), kt(e), kf(e)))

    def ite(self, c, t, f):
        if is_lit(c.split(" ")[0]) and len(c.split(" ")) == 3 and is_lit(c.split(" ")[2]):
            a, op, b = c.split(" ")
            a, b = lit_val(a), lit_val(b)
            r = {"<": a < b, ">": a > b, "≤": a <= b, "≥": a >= b, "=": a == b, "≠": a != b}[op]
            return t if r else f
        return "if %s then\n%s\nelse\n%s" % (c, indent(t), indent(f))

    def hoist0(self, k0, env):
        """continuation without a value, about to be duplicated (it is generated once)"""
        probe = k0(env)
        if len(probe) < 160 or self.no_hoist:
            return lambda e: probe
        jn = "%s.j%d" % (self.name, len(self.joins) + 1)
        vars_ = list(env)
        self.joins.append((jn, vars_, probe))
        return lambda e: ("%s %s" % (jn, " ".join(vars_))) if vars_ else jn

    # -- calls
    def call(self, n, env, k):
        name = self.callee_name(n)
        args = n["inner"][1:]
        rty = ctype(n.get("type", {}))
        if name in ("__builtin_expect",):
            return self.ex(args[0], env, k)
        if self.is_identity(name) and len(args) == 1:
            return self.ex(args[0], env, k)
        if name in ("__assert_fail", "abort", "json_abort", "exit"):
            # a call that does not return: the rest of the path is dead; reaching it is recorded
            return "CSem.noreturn \"%s\"" % name
        fexpr = n["inner"][0]
        def eval_args(i, acc, e):
            if i == len(args):
                return self.after_call(n, name, acc, e, k)
            return self.ex(args[i], e, lambda t, e2: eval_args(i + 1, acc + [t], e2))
        if name.startswith("via_") or name == "indirect":
            return self.ex(fexpr, env, lambda tf, e: eval_args(0, [tf], e))
        return eval_args(0, [], env)

    def after_call(self, n, name, argterms, env, k):
        args = n["inner"][1:]
        rty = ctype(n.get("type", {}))
        text = "let tr := tr ++ [(\"%s\", [%s])]\n" % (name, ", ".join(argterms))
        # havoc what the callee can reach through a pointer to a structure / to a variable that it is handed
        env = list(env)
        for a in args:
            s = self.strip(a)
            roots = []
            if s["kind"] == "DeclRefExpr" and ctype(s.get("type", {}))[0] == "P":
                root = ident(s["referencedDecl"]["name"])
                roots = [p for p in env if p.startswith(root + "_") and p in self.memvars]
                roots += [p for p in env if p == "deref_" + root]
            elif s["kind"] == "UnaryOperator" and s["opcode"] == "&":
                p = self.path_of(self.strip(s["inner"][0]))
                if p is not None and p in env:
                    roots = [p]
            if a is args[0] and "errno" in env and not name.startswith("mem"):
                roots = ["errno"] + roots       # a callee may set errno (the mem* functions do not)
            for p in roots:
                h = self.new_input("h", p, self.memvars.get(p) or self.locals.get(p) or ("I", 64, True), "value of %s after the call of %s" % (p, name))
                text += "let %s : Int := %s\n" % (p, h)
                if p not in self.locals and p not in self.written:
                    self.written.append(p)
        if rty[0] == "V":
            return text + k("0", env)
        c = self.new_input("c", name, rty, "value returned by %s" % name)
        return text + k(c, env)

    # -- statements: k(env) is the fall-through continuation
    def stmts(self, lst, env, k, brk=None):
        if not lst:
            return k(env)
        s, rest = lst[0], lst[1:]
        kind = s["kind"]
        nxt = lambda e: self.stmts(rest, e, k, brk)
        if kind == "CompoundStmt":
            outer = list(env)
            def leave(e):
                # names declared in the block go out of scope
                return nxt([v for v in e if v in outer or v in self.memvars or v == "tr"])
            return self.stmts(s.get("inner", []), env, leave, brk)
        if kind == "NullStmt":
            return nxt(env)
        if kind == "DeclStmt":
            def decls(ds, e):
                if not ds:
                    return nxt(e)
                d = ds[0]
                if d["kind"] != "VarDecl":
                    return decls(ds[1:], e)
                ty = ctype(d.get("type", {}))
                nm = ident(d["name"])
                q = d.get("type", {}).get("desugaredQualType", d.get("type", {}).get("qualType", ""))
                if q.rstrip().endswith("]") and "init" not in d:
                    # a local array: an object of its own, known by its (abstract, non-null) address
                    self.locals[nm] = ("P", 64, False)
                    return "let %s : Int := (CSem.addrOf \"%s\")\n%s" % (nm, nm, decls(ds[1:], e + [nm]))
                if ty[0] == "R":
                    raise Untranslatable("local of record / array type: " + nm)
                if d.get("storageClass") == "static":
                    raise Untranslatable("static local " + nm)
                self.locals[nm] = ty
                if "init" in d and d.get("inner"):
                    init = [x for x in d["inner"] if x["kind"] not in ("FullComment",)][-1]
                    return self.ex(init, e, lambda t, e2: "let %s : Int := %s\n%s" % (nm, t, decls(ds[1:], e2 + [nm])))
                # uninitialised: its indeterminate value is an input of the function, so a theorem that holds for
                # every value of that input shows that the value is never used
                u = self.new_input("u", nm, ty, "indeterminate initial value of the local %s" % nm)
                return "let %s : Int := %s\n%s" % (nm, u, decls(ds[1:], e + [nm]))
            return decls(s.get("inner", []), env)
        if kind == "ReturnStmt":
            if s.get("inner"):
                return self.ex(s["inner"][0], env, lambda t, e: self.ret(t, e))
            return self.ret("0", env)
        if kind == "IfStmt":
            parts = s["inner"]
            c, th = parts[0], parts[1]
            el = parts[2] if len(parts) > 2 else None
            kn = self.hoist0(nxt, env) if self.falls_through(th) and (el is None or self.falls_through(el)) else nxt
            # variables first assigned inside one branch only are not in scope after the join
            def join(e):
                return kn([v for v in e if v in env or v in self.memvars or v == "tr" or self.assigned_everywhere(v, th, el)])
            return self.cond(c, env, lambda e: self.stmts([th], e, join, brk),
                             lambda e: self.stmts([el], e, join, brk) if el is not None else join(e))
        if kind == "SwitchStmt":
            return self.switch(s, env, nxt)
        if kind == "BreakStmt":
            if brk is not None:
                return brk(env)
            if self.loop_brk is not None:
                return self.loop_brk(env)
            raise Untranslatable("break outside switch / loop")
        if kind == "ContinueStmt":
            if self.loop_cnt is None:
                raise Untranslatable("continue outside a loop")
            return self.loop_cnt(env)
        if kind in ("WhileStmt", "ForStmt"):
            return self.loop(s, env, nxt)
        if kind == "DoStmt":
            # the macro idiom `do { ... } while (0)`: the body, once (no break / continue inside)
            parts = s.get("inner", [])
            cnd = self.strip(parts[1]) if len(parts) == 2 else None
            if cnd is not None and cnd.get("kind") == "IntegerLiteral" and int(cnd.get("value", "1")) == 0 \
                    and not self.has_jump(parts[0]):
                return self.stmts([parts[0]] + rest, env, k, brk)
            raise Untranslatable("do-loop other than the do { } while (0) idiom")
        if kind in ("GotoStmt", "LabelStmt"):
            raise Untranslatable("statement kind %s (do-loops and jumps are outside the translated subset)" % kind)
        # expression statement
        return self.ex(s, env, lambda _, e: nxt(e))

    def loop(self, s, env, nxt):
        """while / for (not nested): a recursive definition <fn>.loop<k> over explicit fuel; the iteration counter `c2l_it`
        indexes the values the outside world supplies inside the loop"""
        if self.in_loop:
            raise Untranslatable("nested loops")
        parts = [x for x in s.get("inner", [])]
        if s["kind"] == "WhileStmt":
            parts = [x for x in parts if x]          # an absent condition variable is {}
            init, cond, inc, body = None, parts[0], None, parts[-1]
        else:
            if len(parts) != 5:
                raise Untranslatable("for statement of unexpected shape")
            init, cond, inc, body = (parts[0] or None), (parts[2] or None), (parts[3] or None), parts[4]
        if "fuel" not in [i[0] for i in self.inputs]:
            self.inputs.append(("fuel", ("N", 0, False), "bound on the number of loop iterations the definition unrolls (the theorems show it suffices)"))
        self.nloops += 1
        lname = "%s.loop%d" % (self.name, self.nloops)

        def core(env):
            vars_ = list(env)
            # the code after the loop: always a join point (the loop definition refers to it)
            probe = nxt(list(env))
            jn = "%s.j%d" % (self.name, len(self.joins) + 1)
            self.joins.append((jn, vars_, probe))
            rest = lambda e: "%s %s" % (jn, " ".join(vars_))
            again = lambda e: "%s c2l_fuel (c2l_it + 1) %s" % (lname, " ".join(vars_))

            def after_body(e):
                if inc is not None:
                    return self.ex(inc, e, lambda _, e2: again(e2))
                return again(e)
            saved = (self.in_loop, self.no_hoist, self.loop_brk, self.loop_cnt)
            self.in_loop, self.no_hoist, self.loop_brk, self.loop_cnt = True, True, rest, after_body

            def scoped(e):
                return after_body([v for v in e if v in vars_])
            try:
                if cond is None:
                    btext = self.stmts([body], list(env), scoped, None)
                else:
                    btext = self.cond(cond, list(env), lambda e: self.stmts([body], e, scoped, None), lambda e: rest(e))
            finally:
                self.in_loop, self.no_hoist, self.loop_brk, self.loop_cnt = saved
            text = "match c2l_fuel0 with\n| 0 => CSem.outOfFuel\n| c2l_fuel + 1 =>\n%s" % indent(btext)
            self.joins.append((lname, ["«loop»"] + vars_, text))
            return "%s fuel 0 %s" % (lname, " ".join(vars_))
        if init is not None:
            return self.stmts([init], env, core, None)
        return core(env)

    def has_jump(self, n):
        if isinstance(n, dict):
            if n.get("kind") in ("BreakStmt", "ContinueStmt"):
                return True
            return any(self.has_jump(c) for c in n.get("inner", []))
        return False

    def assigned_everywhere(self, v, th, el):
        return el is not None and self.assigns(th, v) and self.assigns(el, v)

    def assigns(self, n, v):
        if n["kind"] == "BinaryOperator" and n["opcode"] == "=" and self.path_of(n["inner"][0]) == v:
            return True
        if n["kind"] == "IfStmt":
            parts = n["inner"]
            if len(parts) > 2 and self.assigns(parts[1], v) and self.assigns(parts[2], v):
                return True
            return False
        if n["kind"] == "CompoundStmt":
            return any(self.assigns(c, v) for c in n.get("inner", []))
        return False

    def falls_through(self, s):
        k = s["kind"]
        if k == "ReturnStmt":
            return False
        if k == "CompoundStmt":
            inner = s.get("inner", [])
            return all(self.falls_through(x) for x in inner[-1:]) if inner else True
        if k == "IfStmt":
            parts = s["inner"]
            return len(parts) < 3 or self.falls_through(parts[1]) or self.falls_through(parts[2])
        if k == "CallExpr" and self.callee_name(s) in ("__assert_fail", "abort", "json_abort", "exit"):
            return False
        if k in ("CaseStmt", "DefaultStmt"):
            return self.falls_through(s["inner"][-1])
        if k == "SwitchStmt":
            # a switch with a default whose every arm ends in return / a call that does not return, and no break
            body = s["inner"][-1]
            sts = body.get("inner", []) if body.get("kind") == "CompoundStmt" else []
            has_default = any(self._has_kind(x, "DefaultStmt") for x in sts)
            if has_default and sts and not self.has_jump(body):
                # the last statement of every label group must not fall through
                groups, cur = [], []
                for x in sts:
                    if x["kind"] in ("CaseStmt", "DefaultStmt") and cur:
                        groups.append(cur); cur = []
                    cur.append(x)
                groups.append(cur)
                if all(not self.falls_through(g[-1]) for g in groups):
                    return False
            return True
        return True

    def _has_kind(self, n, kind):
        if n.get("kind") == kind:
            return True
        if n.get("kind") in ("CaseStmt", "DefaultStmt"):
            return self._has_kind(n["inner"][-1], kind)
        return False

    def switch(self, s, env, nxt):
        c, body = s["inner"][0], s["inner"][1]
        if body["kind"] != "CompoundStmt":
            raise Untranslatable("switch body is not a block")
        # flatten case labels: [(values or None for default, [stmts])]
        groups = []
        def add_label(node):
            # returns the statement under a chain of labels, registering the labels
            labels = []
            while node["kind"] in ("CaseStmt", "DefaultStmt"):
                if node["kind"] == "CaseStmt":
                    labels.append(self.const_value(node["inner"][0]))
                    node = node["inner"][-1]
                else:
                    labels.append(None)
                    node = node["inner"][-1]
            return labels, node
        for st in body.get("inner", []):
            if st["kind"] in ("CaseStmt", "DefaultStmt"):
                labels, first = add_label(st)
                if groups and not groups[-1][1]:
                    groups[-1] = (groups[-1][0] + labels, [first])
                else:
                    if groups and self.falls_through({"kind": "CompoundStmt", "inner": groups[-1][1]}) and not self.ends_with_break(groups[-1][1]):
                        raise Untranslatable("switch with fall-through")
                    groups.append((labels, [first]))
            else:
                if not groups:
                    raise Untranslatable("statement before the first case label")
                groups[-1][1].append(st)
        kn = self.hoist0(nxt, env)
        def after(e):
            return kn([v for v in e if v in env or v in self.memvars or v == "tr"])
        def chain(t, e):
            default = None
            arms = []
            for labels, sts in groups:
                body_sts = sts
                if None in labels:
                    default = body_sts
                vals = [v for v in labels if v is not None]
                if vals:
                    arms.append((vals, body_sts))
            text = self.stmts(default, list(e), after, after) if default is not None else after(list(e))
            for vals, sts in reversed(arms):
                cnd = " ∨ ".join("%s = %s" % (self.atom(t), lit(v)) for v in vals)
                text = "if %s then\n%s\nelse\n%s" % (cnd, indent(self.stmts(sts, list(e), after, after)), indent(text))
            return text
        return self.ex(c, env, chain)

    def ends_with_break(self, sts):
        return bool(sts) and sts[-1]["kind"] == "BreakStmt"

    def const_value(self, n):
        if n["kind"] == "ConstantExpr" and "value" in n:
            return int(n["value"])
        if n["kind"] in ("IntegerLiteral", "CharacterLiteral"):
            return int(n["value"])
        if n["kind"] == "DeclRefExpr" and n.get("referencedDecl", {}).get("kind") == "EnumConstantDecl" \
                and n["referencedDecl"]["name"] in self.enumvals:
            return self.enumvals[n["referencedDecl"]["name"]]
        if n.get("inner"):
            return self.const_value(n["inner"][0])
        raise Untranslatable("case label is not a constant")

    def ret(self, t, env):
        fields = ["ret := %s" % t] + ["%s := %s" % (p, p if p in env else "0") for p in self.out_fields] + ["calls := tr"]
        return "pure { %s }" % ", ".join(fields)

    # -- whole function
    def translate(self):
        fn = self.ast
        body = None
        for c in fn.get("inner", []):
            if c["kind"] == "ParmVarDecl":
                self.params.append((ident(c["name"]), ctype(c.get("type", {}))))
            elif c["kind"] == "CompoundStmt":
                body = c
        if body is None:
            raise Untranslatable("no body")
        if fn.get("variadic"):
            raise Untranslatable("variadic function")
        rty = ctype({"qualType": fn["type"]["qualType"].split("(")[0].strip()})
        # repeated until stable: the first passes discover which memory paths are read / written / handed to callees
        # (they become parameters of the definition and fields of its result)
        self.out_fields = []
        for attempt in range(6):
            self.inputs, self.joins, self.counter, self.site, self.locals = [], [], 0, 0, {}
            self.fn_inputs, self.nloops = set(), 0
            before = (list(self.memvars), list(self.written))
            env0 = [p for p, _ in self.params] + list(self.memvars) + ["tr"]
            for p, ty in self.params:
                self.locals[p] = ty
            end = (lambda e: self.ret("0", e)) if rty[0] == "V" else (lambda e: "CSem.noreturn \"control reaches the end of a non-void function\"")
            self.out_fields = list(self.written)
            text = self.stmts([body], env0, end)
            if (list(self.memvars), list(self.written)) == before:
                return text
        raise Untranslatable("memory paths did not stabilise")
        return text

    def lean(self):
        try:
            text = self.translate()
        except Untranslatable as e:
            return "def %s.untranslatable : String := %s\n" % (self.name, json.dumps(str(e)))
        except (KeyError, IndexError, TypeError) as e:
            return "def %s.untranslatable : String := %s\n" % (self.name, json.dumps("translator error: %r" % e))
        out = []
        mems = list(self.memvars)
        fields = ["ret : Int"] + ["%s : Int" % p for p in self.out_fields] + ["calls : List (String × List Int)"]
        out.append("structure %s.Out where\n%s\n  deriving Repr, DecidableEq\n" % (self.name, "\n".join("  " + f for f in fields)))
        def ity(nm, ty):
            if ty[0] == "N":
                return "Nat"
            return "Nat → Int" if nm in self.fn_inputs else "Int"
        inputs_sig = " ".join("(%s : %s)" % (nm, ity(nm, ty)) for nm, ty, _ in self.inputs)
        in_names = [nm for nm, _, _ in self.inputs]
        # join points and loops, in order of creation = inner ones first; they take the function's inputs + the environment
        for jn, vars_, jt in self.joins:
            isloop = bool(vars_) and vars_[0] == "«loop»"
            vs = vars_[1:] if isloop else vars_
            sig = " ".join("(%s : %s)" % (v, "List (String × List Int)" if v == "tr" else "Int") for v in vs)
            if isloop:
                sig = "(c2l_fuel0 : Nat) (c2l_it : Nat) " + sig
            out.append("def %s %s %s : Outcome %s.Out :=\n%s\n" % (jn, inputs_sig, sig, self.name, indent(self.fix_joins(jt, in_names))))
        psig = " ".join("(%s : Int)" % p for p, _ in self.params)
        msig = " ".join("(%s : Int)" % p for p in mems)
        doc = ["/-- translated from the current source.  parameters: the C parameters (%s); memory read through fixed paths (%s);" % (
            ", ".join(p for p, _ in self.params) or "-", ", ".join(mems) or "-")]
        for nm, ty, what in self.inputs:
            doc.append("  %s : %s" % (nm, what))
        doc.append("-/")
        out.append("\n".join(doc))
        out.append("def %s %s %s %s : Outcome %s.Out :=\n  let tr : List (String × List Int) := []\n%s\n" % (
            self.name, psig, msig, inputs_sig, self.name, indent(self.fix_joins(text, in_names))))
        # the ranges of the C types of everything that enters
        pre = []
        for p, ty in self.params:
            pre.append(self.range_prop(p, ty))
        for p in mems:
            pre.append(self.range_prop(p, self.memvars[p]))
        for nm, ty, _ in self.inputs:
            if ty[0] == "N":
                continue
            if nm in self.fn_inputs:
                rp = self.range_prop("%s i" % nm, ty)
                pre.append("(∀ i : Nat, %s)" % rp if rp else None)
            else:
                pre.append(self.range_prop(nm, ty))
        pre = [x for x in pre if x]
        out.append("/-- every argument, memory cell and external answer lies in the range of its C type -/\ndef %s.Pre %s %s %s : Prop :=\n  %s\n" % (
            self.name, psig, msig, inputs_sig, " ∧ ".join(pre) or "True"))
        return "\n".join(out)

    def fix_joins(self, text, in_names):
        """calls of join points get the function's inputs passed along"""
        if not in_names:
            return text
        for jn, _, _ in self.joins:
            text = re.sub(r"(?<![A-Za-z0-9_.])%s(?= |$|\n)" % re.escape(jn), "%s %s" % (jn, " ".join(in_names)), text)
        return text

    def range_prop(self, nm, ty):
        if ty[0] in ("I", "U", "P"):
            bits, signed = (ty[1], ty[2]) if ty[0] == "I" else (64, False)
            lo, hi = rng(bits, signed)
            return "(%d ≤ %s ∧ %s ≤ %d)" % (lo, nm, nm, hi)
        return None


def parse_stream(s):
    dec = json.JSONDecoder()
    i, docs = 0, []
    while i < len(s):
        while i < len(s) and s[i].isspace():
            i += 1
        if i >= len(s):
            break
        d, i = dec.raw_decode(s, i)
        docs.append(d)
    return docs


def ast_of(repo, cfg, src, fn):
    r = subprocess.run(["clang-14", "-Xclang", "-ast-dump=json", "-Xclang", "-ast-dump-filter=" + fn, "-fsyntax-only",
                        "-D_GNU_SOURCE", "-w", "-I", repo, "-I", cfg, os.path.join(repo, src)],
                       stdout=subprocess.PIPE, stderr=subprocess.PIPE, text=True)
    for d in parse_stream(r.stdout):
        if d.get("kind") == "FunctionDecl" and d.get("name") == fn and any(c.get("kind") == "CompoundStmt" for c in d.get("inner", [])):
            return d
    return None


def enum_names(n, acc):
    if isinstance(n, dict):
        if n.get("kind") == "DeclRefExpr" and n.get("referencedDecl", {}).get("kind") == "EnumConstantDecl":
            acc.add(n["referencedDecl"]["name"])
        for c in n.get("inner", []):
            enum_names(c, acc)
    return acc


def record_types(n, acc):
    if isinstance(n, dict):
        t = n.get("type", {})
        q = t.get("desugaredQualType", t.get("qualType", ""))
        q = re.sub(r"\b(const|volatile|restrict)\b", "", q).strip()
        m = re.fullmatch(r"((?:struct|union) \w+) \*+", re.sub(r"\s+", " ", q))
        if m:
            acc.add(m.group(1))
        if n.get("kind") == "UnaryExprOrTypeTraitExpr" and n.get("argType"):
            aq = n["argType"].get("desugaredQualType", n["argType"].get("qualType", ""))
            aq = re.sub(r"\s+", " ", re.sub(r"\b(const|volatile)\b", "", aq).strip())
            if re.fullmatch(r"(?:struct|union) \w+", aq):
                acc.add(aq)
        for c in n.get("inner", []):
            record_types(c, acc)
    return acc


def member_refs(n, acc):
    """(record type, member) of every member access whose record type has a name"""
    if isinstance(n, dict):
        if n.get("kind") == "MemberExpr" and n.get("inner"):
            bt = n["inner"][0].get("type", {})
            bq = re.sub(r"\s+", " ", re.sub(r"\b(const|volatile)\b", "", bt.get("desugaredQualType", bt.get("qualType", ""))).strip())
            rec = bq[:-1].strip() if n.get("isArrow") and bq.endswith("*") else bq
            if re.fullmatch(r"struct \w+", rec):
                acc.add((rec, n["name"]))
        for c in n.get("inner", []):
            member_refs(c, acc)
    return acc


def resolve_offsets(repo, cfg, src, refs):
    refs = sorted(refs)
    vals = resolve_enums(repo, cfg, src, ["__builtin_offsetof(%s, %s)" % r for r in refs])
    out = {}
    for r in refs:
        v = vals.get("__builtin_offsetof(%s, %s)" % r)
        if v is not None:
            out[r] = v
    return out


def resolve_sizes(repo, cfg, src, recs):
    """sizeof of the record types the function indexes arrays of, evaluated by clang in the unit of `src`"""
    vals = resolve_enums(repo, cfg, src, ["sizeof(%s)" % r for r in sorted(recs)])
    return {k[len("sizeof("):-1]: v for k, v in vals.items()}


def resolve_enums(repo, cfg, src, names):
    """values of enumeration constants as the compiler computes them in the translation unit of `src`: a second
    translation unit includes the source file and restates each constant as an explicit enumerator, whose
    initialiser clang evaluates (ConstantExpr.value)"""
    if not names:
        return {}
    names = sorted(names)
    tu = "#include \"%s\"\nenum { %s };\n" % (os.path.join(repo, src), ", ".join("c2l__%d = (%s)" % (i, nm) for i, nm in enumerate(names)))
    r = subprocess.run(["clang-14", "-x", "c", "-Xclang", "-ast-dump=json", "-Xclang", "-ast-dump-filter=c2l__", "-fsyntax-only",
                        "-D_GNU_SOURCE", "-w", "-I", repo, "-I", cfg, "-"], input=tu, stdout=subprocess.PIPE, stderr=subprocess.PIPE, text=True)
    vals = {}
    for d in parse_stream(r.stdout):
        if d.get("kind") == "EnumConstantDecl" and d.get("name", "").startswith("c2l__"):
            def first_const(n):
                if n.get("kind") == "ConstantExpr" and "value" in n:
                    return int(n["value"])
                for c in n.get("inner", []):
                    v = first_const(c)
                    if v is not None:
                        return v
                return None
            v = first_const(d)
            if v is not None:
                vals[names[int(d["name"][5:])]] = v
    return vals


_IDENT_CACHE = {}


def identity_oracle(repo, cfg, src):
    """fn name -> is it a function whose whole body is `return <casts of its only parameter>;` (json-c's JC_* helpers)"""
    def strip_casts(n):
        while n.get("kind") in ("ImplicitCastExpr", "ParenExpr", "CStyleCastExpr"):
            n = n["inner"][0]
        return n

    def check(fn):
        key = (src, fn)
        if key not in _IDENT_CACHE:
            ok = False
            if re.fullmatch(r"[A-Za-z_][A-Za-z0-9_]*", fn or ""):
                a = ast_of(repo, cfg, src, fn)
                if a is not None:
                    params = [c for c in a.get("inner", []) if c.get("kind") == "ParmVarDecl"]
                    body = [c for c in a.get("inner", []) if c.get("kind") == "CompoundStmt"]
                    if len(params) == 1 and body and len(body[0].get("inner", [])) == 1:
                        st = body[0]["inner"][0]
                        if st.get("kind") == "ReturnStmt" and st.get("inner"):
                            e = strip_casts(st["inner"][0])
                            ok = e.get("kind") == "DeclRefExpr" and e.get("referencedDecl", {}).get("name") == params[0].get("name")
            _IDENT_CACHE[key] = ok
        return _IDENT_CACHE[key]
    return check


HEADER = """/- GENERATED by tools/extract/c2lean.py from /repo's current sources (clang's typed AST) - do not edit. -/
import JsonC.Base.CSem
set_option linter.unusedVariables false
namespace JsonC.Translated
open JsonC

"""


def generate(repo, cfg):
    out = [HEADER]
    for src, fn in FUNCTIONS:
        out.append("-- %s: %s" % (src, fn))
        ast = ast_of(repo, cfg, src, fn)
        if ast is None:
            out.append("def %s.untranslatable : String := \"function not found in %s\"\n" % (fn, src))
            continue
        ev = resolve_enums(repo, cfg, src, enum_names(ast, set()))
        RECORD_SIZES.clear()
        RECORD_SIZES.update(resolve_sizes(repo, cfg, src, record_types(ast, set())))
        FIELD_OFFSETS.clear()
        FIELD_OFFSETS.update(resolve_offsets(repo, cfg, src, member_refs(ast, set())))
        out.append(Fn(ast, fn, ev, identity_oracle(repo, cfg, src)).lean())
    out.append("end JsonC.Translated\n")
    return "\n".join(out)


if __name__ == "__main__":
    print(generate(sys.argv[1] if len(sys.argv) > 1 else "/repo", sys.argv[2] if len(sys.argv) > 2 else "/verif/build/cfg"))
