"""linkhash.c / json_object.c / json_object.h / json_visit.c facts used by the C06 model (Model/Linkhash.lean).

Each fact is a Bool read off the *text* of the current source (comments stripped, whitespace and the
names of locals free).  The model consults `lhLookupBounded` and `lhResizeKeepsArgSize`; the others are
asserted by `decide` lemmas in Props/C06.lean, so a source change that alters one makes a named lemma fail."""
import re
from structure import strip_c_comments, func_body, read, lit


def b(v):
    return "true" if v else "false"


def norm(s):
    return re.sub(r"\s+", "", s)


def facts(repo, cfg):
    out = []
    lh = strip_c_comments(read(repo, "linkhash.c"))
    # --- lh_table_lookup_entry_w_hash: probe loop bounded by a counter compared with t->size
    body = func_body(lh, "lh_table_lookup_entry_w_hash")
    nb = norm(body)
    m = re.search(r"while\((\w+)<t->size\)", nb)
    bounded = bool(m) and bool(re.search(r"(%s\+\+|\+\+%s|%s\+=1)" % ((m.group(1),) * 3), nb)) and \
        bool(re.search(r"int%s=0;" % m.group(1), nb))
    out.append(lit("lhLookupBounded", "Bool", b(bounded) if body else None,
                   "lh_table_lookup_entry_w_hash: int c = 0; while (c < t->size) { .. c++; }"))
    stops = bool(re.search(r"if\(t->table\[\w+\]\.k==LH_EMPTY\)returnNULL;", nb))
    skips = bool(re.search(r"if\(t->table\[\w+\]\.k!=LH_FREED&&t->equal_fn\(t->table\[\w+\]\.k,k\)\)return&t->table\[\w+\];", nb))
    out.append(lit("lhLookupStopsAtEmptySkipsFreed", "Bool", b(stops and skips) if body else None,
                   "lookup: EMPTY ends the probe, FREED is skipped, equal_fn decides"))
    # --- lh_table_insert_w_hash
    body = func_body(lh, "lh_table_insert_w_hash")
    nb = norm(body)
    out.append(lit("lhInsertLoadTest", "Bool", b("if(t->count>=t->size*LH_LOAD_FACTOR)" in nb) if body else None,
                   "insert: if (t->count >= t->size * LH_LOAD_FACTOR)"))
    grow = bool(re.search(r"int\w+=\(t->size>INT_MAX/2\)\?INT_MAX:\(t->size\*2\);", nb)) and \
        bool(re.search(r"if\(t->size==INT_MAX\|\|lh_table_resize\(t,\w+\)!=0\)return-1;", nb))
    out.append(lit("lhInsertGrowsDouble", "Bool", b(grow) if body else None,
                   "insert: new_size = size > INT_MAX/2 ? INT_MAX : size*2; size == INT_MAX || resize fails -> -1"))
    probe = bool(re.search(r"if\(t->table\[\w+\]\.k==LH_EMPTY\|\|t->table\[\w+\]\.k==LH_FREED\)break;", nb))
    out.append(lit("lhInsertTakesEmptyOrFreed", "Bool", b(probe) if body else None,
                   "insert: first slot whose k is LH_EMPTY or LH_FREED"))
    # --- lh_table_resize: which size is stored
    body = func_body(lh, "lh_table_resize")
    nb = norm(body)
    m = re.search(r"t->size=([^;]+);", nb)
    keeps = None
    if m:
        if re.fullmatch(r"new_size|\w*size\w*", m.group(1)) and "->" not in m.group(1):
            keeps = True
        elif re.fullmatch(r"\w+->size", m.group(1)):
            keeps = False
    out.append(lit("lhResizeKeepsArgSize", "Bool", b(keeps) if keeps is not None else None,
                   "resize: t->size = new_size (true) or = new_t->size (false)"))
    # --- lh_table_delete_entry: tombstone
    body = func_body(lh, "lh_table_delete_entry")
    nb = norm(body)
    out.append(lit("lhDeleteWritesFreed", "Bool", b(bool(re.search(r"t->table\[\w+\]\.k=LH_FREED;", nb))) if body else None,
                   "delete_entry: t->table[n].k = LH_FREED"))
    # --- json_object.c
    jo = strip_c_comments(read(repo, "json_object.c"))
    body = func_body(jo, "json_object_object_add_ex")
    nb = norm(body)
    looks = bool(re.search(r"\(opts&JSON_C_OBJECT_ADD_KEY_IS_NEW\)\?NULL:lh_table_lookup_entry_w_hash\(", nb))
    out.append(lit("objectAddLooksUpUnlessNew", "Bool", b(looks) if body else None,
                   "object_add_ex: existing = (opts & KEY_IS_NEW) ? NULL : lookup"))
    body = func_body(jo, "json_object_object_to_json_string")
    out.append(lit("serUsesForeachC", "Bool", b("json_object_object_foreachC(" in norm(body)) if body else None,
                   "the serializer walks an object with json_object_object_foreachC"))
    jv = strip_c_comments(read(repo, "json_visit.c"))
    body = func_body(jv, "_json_c_visit")
    out.append(lit("visitUsesForeach", "Bool", b("json_object_object_foreach(" in norm(body)) if body else None,
                   "json_c_visit walks an object with json_object_object_foreach"))
    # --- json_object.h: every definition of the foreach macro prefetches the next entry before the body
    jh_raw = strip_c_comments(read(repo, "json_object.h"))

    def macro_defs(name):
        res = []
        for m in re.finditer(r"#\s*define\s+%s\s*\(" % name, jh_raw):
            i = m.start()
            j = i
            while True:
                k = jh_raw.find("\n", j)
                if k < 0:
                    k = len(jh_raw)
                    break
                if jh_raw[:k].rstrip().endswith("\\"):
                    j = k + 1
                    continue
                break
            res.append(norm(jh_raw[i:k].replace("\\\n", " ")))
        return res

    fdefs = macro_defs("json_object_object_foreach")
    pre = bool(fdefs) and all("entry_next##key=lh_entry_next(entry##key)" in d and d.endswith("entry##key=entry_next##key)")
                              for d in fdefs)
    out.append(lit("foreachPrefetchesNext", "Bool", b(pre),
                   "every json_object_object_foreach definition: entry_next = lh_entry_next(entry) before the body; step is entry = entry_next"))
    cdefs = macro_defs("json_object_object_foreachC")
    nopre = bool(cdefs) and all(d.endswith("iter.entry=lh_entry_next(iter.entry))") for d in cdefs)
    out.append(lit("foreachCReadsNextAfterBody", "Bool", b(nopre),
                   "json_object_object_foreachC: step is iter.entry = lh_entry_next(iter.entry)"))
    return "".join(out)
