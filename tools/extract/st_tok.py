"""json_tokener.c: the transition structure of the state machine in json_tokener_parse_ex, read off the
current source text.  For every `case json_tokener_state_X:` group of the big switch: the states it may
assign to `state`, to `saved_state`, and the error codes it may set - as sorted sets, so that reordering
or duplicating statements does not matter but a new transition, a dropped one or a new error exit does.
The hand-written model (Model/Tokener.lean) was written against the table `Lemmas/TokenerTable.lean`
records; `tok_structure_as_modelled` (Props/C04.lean) compares the two by `decide`."""
import re
from structure import read, strip_c_comments
from st_locale import func_body, blank_literals


def lean_list(xs):
    return "[" + ", ".join('"%s"' % x for x in xs) + "]"


def facts(repo, cfg):
    src = strip_c_comments(read(repo, "json_tokener.c"))
    body = func_body(src, "json_tokener_parse_ex")
    out = []
    groups = []
    if body:
        # positions of the case labels of tokener states
        labels = [(m.start(), m.end(), m.group(1)) for m in re.finditer(r"\bcase\s+json_tokener_state_(\w+)\s*:", body)]
        i = 0
        while i < len(labels):
            names = [labels[i][2]]
            j = i
            # stacked labels: only white space between one label and the next
            while j + 1 < len(labels) and body[labels[j][1]:labels[j + 1][0]].strip() == "":
                j += 1
                names.append(labels[j][2])
            end = labels[j + 1][0] if j + 1 < len(labels) else len(body)
            text = body[labels[j][1]:end]
            if j + 1 >= len(labels):
                # the last group ends where the switch ends: cut at the first unmatched '}'
                depth = 0
                for k, ch in enumerate(blank_literals(text)):
                    if ch == "{":
                        depth += 1
                    elif ch == "}":
                        depth -= 1
                        if depth < 0:
                            text = text[:k]
                            break
            st = sorted(set(re.findall(r"(?<![\w_])state\s*=\s*json_tokener_state_(\w+)", text)))
            sv = sorted(set(re.findall(r"\bsaved_state\s*=\s*json_tokener_state_(\w+)", text)))
            er = sorted(set(re.findall(r"tok->err\s*=\s*json_tokener_error_(\w+)", text)))
            extra = []
            if re.search(r"(?<![\w_])state\s*=\s*saved_state", text):
                extra.append("state=saved_state")
            if re.search(r"tok->depth\+\+|\+\+tok->depth", text):
                extra.append("depth++")
            if re.search(r"tok->depth--|--tok->depth", text):
                extra.append("depth--")
            groups.append((sorted(names), st + extra, sv, er))
            i = j + 1
    groups.sort()
    out.append("/-- json_tokener_parse_ex: per `case json_tokener_state_…` group (labels, states assigned to `state` plus depth changes,\nstates assigned to `saved_state`, error codes set) -/\n")
    out.append("def tokCases : List (List String × List String × List String × List String) := [\n")
    out.append(",\n".join("  (%s, %s, %s, %s)" % (lean_list(a), lean_list(b), lean_list(c), lean_list(d)) for (a, b, c, d) in groups))
    out.append("]\n")
    # the epilogue: which error codes the code after `out:` may set
    tail = body[body.find("out:"):] if body and "out:" in body else ""
    out.append("def tokEpilogueErrs : List String := %s  -- error codes assigned after the label `out:`\n"
               % lean_list(sorted(set(re.findall(r"tok->err\s*=\s*json_tokener_error_(\w+)", tail)))))
    return "".join(out)
