"""json_object.c string-node facts (C11): the literal slack constants of the size computations.
Identifier names are not relied upon (a renamed local does not disturb the extraction)."""
import re
from structure import strip_c_comments, func_body, read, nat, find_int

ID = r"[A-Za-z_]\w*"


def facts(repo, cfg):
    out = []
    src = strip_c_comments(read(repo, "json_object.c"))
    b_new = func_body(src, "_json_object_new_string")
    # if (len > (SSIZE_T_MAX - (sizeof(*jso) - sizeof(jso->c_string)) - N)) return NULL;
    out.append(nat("strNewGuardSlack",
                   find_int(b_new, r">\s*\(?\s*SSIZE_T_MAX\s*-\s*\(\s*sizeof\s*\([^)]*\)\s*-\s*sizeof\s*\([^)]*\)\s*\)\s*-\s*(\d+)"),
                   "_json_object_new_string: len > SSIZE_T_MAX - (sizeof(*jso) - sizeof(jso->c_string)) - N"))
    # objsize = (sizeof(*jso) - sizeof(jso->c_string)) + len + N;
    out.append(nat("strNewNulRoom",
                   find_int(b_new, r"=\s*\(\s*sizeof\s*\([^)]*\)\s*-\s*sizeof\s*\([^)]*\)\s*\)\s*\+\s*" + ID + r"\s*\+\s*(\d+)\s*;"),
                   "_json_object_new_string: objsize = (sizeof(*jso) - sizeof(jso->c_string)) + len + N"))
    # if (len >= INT_MAX - N) return NULL;   (what json_object_get_string_len, an int, cannot report is refused)
    out.append(nat("strNewIntGuardSlack", find_int(b_new, ID + r"\s*>=\s*INT_MAX\s*-\s*(\d+)"),
                   "_json_object_new_string: len >= INT_MAX - N is refused"))
    b_set = func_body(src, "_json_object_set_string_len")
    # if (len >= INT_MAX - N) return 0;
    out.append(nat("strSetGuardSlack", find_int(b_set, ID + r"\s*>=\s*INT_MAX\s*-\s*(\d+)"),
                   "_json_object_set_string_len: len >= INT_MAX - N is refused"))
    # dstbuf = (char *)malloc(len + N);
    out.append(nat("strGrowNulRoom", find_int(b_set, r"malloc\s*\(\s*" + ID + r"\s*\+\s*(\d+)\s*\)"),
                   "_json_object_set_string_len: malloc(len + N)"))
    return "".join(out)
