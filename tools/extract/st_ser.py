"""json_object.c facts used by the C02 model (Model/Serialize.lean): the literals the serializer emits
(colour escapes, json_hex_chars, the standard double format), the sizes of its stack buffers, the
guard of the ".0" suffix, and the shape of the few statements whose exact form the theorems rest on
(asserted by the `decide` lemma `src_shape` in Props/C02.lean)."""
import re
from structure import strip_c_comments, func_body, read, lit, nat, find_int


def c_unescape(s):
    """bytes of a C string literal body (octal, hex and the simple escapes)"""
    out, i = [], 0
    simple = {"n": 10, "t": 9, "r": 13, "b": 8, "f": 12, "a": 7, "v": 11, "\\": 92, '"': 34, "'": 39, "?": 63}
    while i < len(s):
        c = s[i]
        if c != "\\":
            out.append(ord(c)); i += 1; continue
        i += 1
        if i >= len(s):
            return None
        c = s[i]
        if c in "01234567":
            j = i
            while j < len(s) and j < i + 3 and s[j] in "01234567":
                j += 1
            out.append(int(s[i:j], 8) & 255); i = j
        elif c == "x":
            j = i + 1
            while j < len(s) and s[j] in "0123456789abcdefABCDEF":
                j += 1
            if j == i + 1:
                return None
            out.append(int(s[i + 1:j], 16) & 255); i = j
        elif c in simple:
            out.append(simple[c]); i += 1
        else:
            return None
    return out


def bytes_lit(name, val, comment):
    if val is None:
        return "def %s : List UInt8 := []  -- NOT FOUND in source (%s)\n" % (name, comment)
    return "def %s : List UInt8 := [%s]  -- %s\n" % (name, ", ".join(str(b) for b in val), comment)


def b(v):
    return "true" if v else "false"


def norm(s):
    return re.sub(r"\s+", "", s)


def facts(repo, cfg):
    out = []
    raw = read(repo, "json_object.c")
    jo = strip_c_comments(raw)
    for lean, macro in (("serColorReset", "ANSI_COLOR_RESET"), ("serColorGreen", "ANSI_COLOR_FG_GREEN"),
                        ("serColorBlue", "ANSI_COLOR_FG_BLUE"), ("serColorMagenta", "ANSI_COLOR_FG_MAGENTA")):
        m = re.search(r'#\s*define\s+%s\s+"((?:[^"\\]|\\.)*)"' % macro, jo)
        out.append(bytes_lit(lean, c_unescape(m.group(1)) if m else None, "#define %s" % macro))
    m = re.search(r'json_hex_chars\s*=\s*"((?:[^"\\]|\\.)*)"', jo)
    out.append(bytes_lit("serHexChars", c_unescape(m.group(1)) if m else None, "json_hex_chars"))

    esc = func_body(jo, "json_escape_str")
    out.append(nat("serEscBuf", find_int(esc, r"char\s+\w+\s*\[\s*(\d+)\s*\]"), "json_escape_str: char sbuf[N]"))
    m = re.search(r'snprintf\s*\(\s*(\w+)\s*,\s*sizeof\s*\(\s*\1\s*\)\s*,\s*"((?:[^"\\]|\\.)*)"', esc)
    fmt = c_unescape(m.group(2)) if m else None
    # the part of the format before the two %c conversions
    pre = None
    if fmt is not None and bytes(fmt).endswith(b"%c%c"):
        pre = fmt[:-4]
    out.append(bytes_lit("serEscUPrefix", pre, 'json_escape_str: snprintf(sbuf, sizeof(sbuf), "<prefix>%c%c", hex[c >> 4], hex[c & 0xf])'))
    ne = norm(esc)
    out.append(lit("serEscHexIdx", "Bool", b(bool(re.search(r"json_hex_chars\[(\w+)>>4\],json_hex_chars\[\1&0xf\]", ne))),
                   "json_escape_str: the two %c arguments are json_hex_chars[c >> 4], json_hex_chars[c & 0xf]"))
    out.append(lit("serEscCtlBelowSpace", "Bool", b(bool(re.search(r"default:if\(\w+<(''|32|0x20)\)", ne))),
                   "json_escape_str: default: if (c < ' ') -> \\u00XX else verbatim"))
    cases = re.findall(r"case'((?:[^'\\]|\\.)+)':", ne.split("default:")[0]) if "default:" in ne else []
    cs = []
    for c in cases:
        v = c_unescape(c)
        if v is not None and len(v) == 1:
            cs.append(v[0])
    out.append(bytes_lit("serEscCases", cs or None, "json_escape_str: the case labels of the switch, in order"))
    out.append(lit("serEscUnsignedChar", "Bool", b(bool(re.search(r"unsigned\s+char\s+\w+\s*;", esc))),
                   "json_escape_str: the byte is read into an unsigned char"))

    ib = func_body(jo, "json_object_int_to_json_string")
    out.append(nat("serIntBuf", find_int(ib, r"char\s+\w+\s*\[\s*(\d+)\s*\]"), "json_object_int_to_json_string: char sbuf[N]"))
    ni = norm(ib)
    out.append(lit("serIntBySignedness", "Bool",
                   b(bool(re.search(r'cint_type==json_object_int_type_int64\)snprintf\((\w+),sizeof\(\1\),"%"PRId64,', ni)) and
                     bool(re.search(r'elsesnprintf\((\w+),sizeof\(\1\),"%"PRIu64,', ni)) and
                     bool(re.search(r"printbuf_memappend\(pb,(\w+),strlen\(\1\)\)", ni))),
                   "int: int64 -> PRId64, else PRIu64; strlen(sbuf) bytes appended"))

    db = func_body(jo, "json_object_double_to_json_string_format")
    out.append(nat("serDblBuf", find_int(db, r"char\s+\w+\s*\[\s*(\d+)\s*\]"), "json_object_double_to_json_string_format: char buf[N]"))
    m = re.search(r'std_format\s*=\s*"((?:[^"\\]|\\.)*)"', db)
    out.append(bytes_lit("serStdFormat", c_unescape(m.group(1)) if m else None, "double: std_format"))
    nd = norm(db)
    out.append(nat("serDotZeroSlack", find_int(nd, r"\w+<\(int\)sizeof\(\w+\)-(\d+)&&\w+&&!\w+&&strchr"),
                   "double: the \".0\" suffix needs size < (int)sizeof(buf) - N"))
    out.append(lit("serLooksNumericFromText", "Bool",
                   b(bool(re.search(r"\w+=is_plain_digit\((\w+)\[0\]\)\|\|\(\w+>1&&\1\[0\]=='-'&&is_plain_digit\(\1\[1\]\)\);", nd))),
                   "double: looks_numeric = is_plain_digit(buf[0]) || (size > 1 && buf[0] == '-' && is_plain_digit(buf[1]))"))
    out.append(lit("serNoZeroStopsAtExp", "Bool", b(bool(re.search(r"for\((\w+)=\w+;\*\1&&\*\1!='e'&&\*\1!='E';\1\+\+\)", nd))),
                   "double, NOZERO: the trailing-zero scan stops at the exponent: for (q = p; *q && *q != 'e' && *q != 'E'; q++)"))
    out.append(lit("serNoZeroMove", "Bool", b(bool(re.search(r"if\((\w+)<(\w+)\)memmove\(\1\+1,\2,strlen\(\2\)\+1\);\w+=\(int\)strlen\(\w+\);", nd))),
                   "double, NOZERO: if (p < q) memmove(p + 1, q, strlen(q) + 1); size = (int)strlen(buf);"))
    out.append(lit("serCommaToPoint", "Bool", b(bool(re.search(r"(\w+)=strchr\((\w+),','\);if\(\1\)\*\1='\.';else\1=strchr\(\2,'\.'\);", nd))),
                   "double: p = strchr(buf, ','); if (p) *p = '.'; else p = strchr(buf, '.');"))
    out.append(lit("serDblTruncates", "Bool", b(bool(re.search(r"if\((\w+)>=\(int\)sizeof\((\w+)\)\)\1=sizeof\(\2\)-1;printbuf_memappend\(pb,\2,\1\);", nd))),
                   "double: size >= sizeof(buf) is clamped to sizeof(buf) - 1 before the append"))
    m = re.search(r'snprintf\(\w+,sizeof\(\w+\),"((?:[^"\\]|\\.)*)"\);\}elseif\(isinf', nd)
    out.append(bytes_lit("serNaN", c_unescape(m.group(1)) if m else None, "double: NaN spelling"))
    m = re.search(r'if\(\w+->c_double>0\)\w+=snprintf\(\w+,sizeof\(\w+\),"((?:[^"\\]|\\.)*)"\);else\w+=snprintf\(\w+,sizeof\(\w+\),"((?:[^"\\]|\\.)*)"\);', nd)
    out.append(bytes_lit("serPosInf", c_unescape(m.group(1)) if m else None, "double: +Infinity spelling"))
    out.append(bytes_lit("serNegInf", c_unescape(m.group(2)) if m else None, "double: -Infinity spelling"))

    sb = norm(func_body(jo, "json_object_string_to_json_string"))
    out.append(lit("serStringUsesStoredLen", "Bool",
                   b(bool(re.search(r"ssize_t(\w+)=JC_STRING\(jso\)->len;.*json_escape_str\(pb,get_string_component\(jso\),\1<0\?-\(ssize_t\)\1:\1,flags\);", sb))),
                   "string: json_escape_str(pb, get_string_component(jso), |len|, flags) with the stored length"))
    ub = norm(func_body(jo, "json_object_userdata_to_json_string"))
    out.append(lit("serUserdataStrlen", "Bool",
                   b(bool(re.search(r"int(\w+)=strlen\(\(constchar\*\)jso->_userdata\);printbuf_memappend\(pb,\(constchar\*\)jso->_userdata,\1\);", ub))),
                   "retained double text: strlen(_userdata) bytes of _userdata appended"))
    ob = norm(func_body(jo, "json_object_object_to_json_string"))
    out.append(lit("serKeyStrlen", "Bool", b(bool(re.search(r"json_escape_str\(pb,(\w+)\.key,strlen\(\1\.key\),flags\);", ob))),
                   "object: json_escape_str(pb, iter.key, strlen(iter.key), flags)"))
    lb = norm(func_body(jo, "json_object_to_json_string_length"))
    out.append(lit("serTopLevel", "Bool",
                   b(bool(re.search(r'if\(!jso\)\{(\w+)=4;(\w+)="null";\}', lb)) and "printbuf_reset(jso->_pb);" in lb and
                     bool(re.search(r"if\(jso->_to_json_string\(jso,jso->_pb,0,flags\)>=0\)\{\w+=\(size_t\)jso->_pb->bpos;\w+=jso->_pb->buf;\}", lb))),
                   "to_json_string_length: NULL -> \"null\" (4); else reset the node's printbuf, serialize at level 0, report bpos and buf"))
    nb = norm(func_body(jo, "indent"))
    out.append(lit("serIndentShape", "Bool",
                   b("if(flags&JSON_C_TO_STRING_PRETTY){if(flags&JSON_C_TO_STRING_PRETTY_TAB){printbuf_memset(pb,-1,'\\t',level);}else{printbuf_memset(pb,-1,'',level*2);}}" in nb),
                   "indent: PRETTY ? (PRETTY_TAB ? level tabs : level * 2 spaces) : nothing"))
    return "".join(out)
