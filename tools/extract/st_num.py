"""json_object.c / json_util.c facts used by the C10 model (Model/Num.lean).

Read off the *text* of the current source (comments stripped, all white space removed, names of
locals free).  The comparison operators that guard the double -> integer casts and the way
json_object_int_inc negates its argument are *consulted by the model* (so `get*_no_fault` /
`inc_no_fault` stop checking when one of them changes); the remaining facts are asserted by the
`decide` lemma `src_shape` in Props/C10.lean, so a source change that alters one makes a named
lemma fail.  A model-consulted fact that cannot be located any more keeps its default and turns a
shape fact (`numCastGuardsFound`, `numIncShape`) false, so `src_shape` is reported by name while the driver
still builds and the correspondence run can exhibit a concrete failing input."""
import re
from structure import strip_c_comments, func_body, read, lit


def b(v):
    return "true" if v else "false"


def norm(s):
    return re.sub(r"\s+", "", s)


DBL = r"(?:JC_DOUBLE_C\(jso\)->c_double|JC_DOUBLE\(jso\)->c_double|\w+)"


FOUND = []


def op_fact(out, name, body, pattern, when_true, when_false, comment):
    """pattern has one group: the comparison operator.  A guard that cannot be located keeps the value the
    model was written for (so that the driver still builds and the correspondence run can exhibit a concrete
    input) and is reported through `numCastGuardsFound`, which `src_shape` asserts."""
    m = re.search(pattern, body)
    v = None
    if m:
        if m.group(1) == when_true:
            v = True
        elif m.group(1) == when_false:
            v = False
    FOUND.append(v is not None)
    out.append(lit(name, "Bool", b(v if v is not None else True), comment + ("" if v is not None else "  [NOT FOUND: default]")))


def facts(repo, cfg):
    out = []
    del FOUND[:]
    jo = strip_c_comments(read(repo, "json_object.c"))
    ju = strip_c_comments(read(repo, "json_util.c"))

    # ---- json_object_get_int64: double case
    g64 = norm(func_body(jo, "json_object_get_int64"))
    op_fact(out, "numI64DblHiIncl", g64, r"if\(%s(>=|>)\(double\)INT64_MAX\)" % DBL, ">=", ">",
            "get_int64: c_double >= (double)INT64_MAX (true) or > (false)")
    op_fact(out, "numI64DblLoStrict", g64, r"if\(%s(<=|<)\(double\)INT64_MIN\)" % DBL, "<", "<=",
            "get_int64: c_double < (double)INT64_MIN (true) or <= (false)")
    shape64 = bool(re.search(r"if\(\w+->cint\.c_uint64>INT64_MAX\)\{errno=ERANGE;returnINT64_MAX;\}", g64)) and \
        bool(re.search(r"if\(isnan\(%s\)\)\{errno=EINVAL;returnINT64_MIN;\}return\(int64_t\)%s;" % (DBL, DBL), g64)) and \
        g64.count("errno=ERANGE;returnINT64_MAX;") == 2 and g64.count("errno=ERANGE;returnINT64_MIN;") == 1
    out.append(lit("numGetInt64Shape", "Bool", b(shape64) if g64 else None,
                   "get_int64: uint64 > INT64_MAX saturates with ERANGE; NaN test sits between the range tests and the cast"))

    # ---- json_object_get_uint64
    gu = norm(func_body(jo, "json_object_get_uint64"))
    op_fact(out, "numU64DblHiIncl", gu, r"if\(%s(>=|>)\(double\)UINT64_MAX\)" % DBL, ">=", ">",
            "get_uint64: c_double >= (double)UINT64_MAX (true) or > (false)")
    op_fact(out, "numU64DblLoStrict", gu, r"if\(%s(<=|<)0\)" % DBL, "<", "<=",
            "get_uint64: c_double < 0 (true) or <= 0 (false)")
    shapeu = bool(re.search(r"if\(\w+->cint\.c_int64<0\)\{errno=ERANGE;return0;\}", gu)) and \
        bool(re.search(r"if\(isnan\(%s\)\)\{errno=EINVAL;return0;\}return\(uint64_t\)%s;" % (DBL, DBL), gu)) and \
        gu.count("errno=ERANGE;returnUINT64_MAX;") == 1 and gu.count("errno=ERANGE;return0;") == 2
    out.append(lit("numGetUint64Shape", "Bool", b(shapeu) if gu else None,
                   "get_uint64: int64 < 0 gives 0 with ERANGE; NaN test sits between the range tests and the cast"))

    # ---- json_object_get_int
    gi = norm(func_body(jo, "json_object_get_int"))
    md = re.search(r"double(\w+);", gi)
    dv = md.group(1) if md else r"\w+"
    op_fact(out, "numI32DblLoStrict", gi, r"if\(%s(<=|<)INT32_MIN\)" % dv, "<", "<=",
            "get_int: cdouble < INT32_MIN (true) or <= (false)")
    op_fact(out, "numI32DblHiStrict", gi, r"if\(%s(>=|>)INT32_MAX\)" % dv, ">", ">=",
            "get_int: cdouble > INT32_MAX (true) or >= (false)")
    mi = re.search(r"int64_t(\w+)=0;", gi)
    iv = mi.group(1) if mi else r"\w+"
    shapei = bool(md) and bool(mi) and \
        bool(re.search(r"if\(\w+->cint\.c_uint64>=INT64_MAX\)%s=INT64_MAX;else%s=\(int64_t\)\w+->cint\.c_uint64;" % (iv, iv), gi)) and \
        bool(re.search(r"if\(%s<INT32_MIN\)\{errno=ERANGE;returnINT32_MIN;\}if\(%s>INT32_MAX\)\{errno=ERANGE;returnINT32_MAX;\}return\(int32_t\)%s;" % (iv, iv, iv), gi)) and \
        bool(re.search(r"if\(isnan\(%s\)\)\{errno=EINVAL;returnINT32_MIN;\}return\(int32_t\)%s;" % (dv, dv), gi)) and \
        bool(re.search(r"if\(json_parse_int64\(get_string_component\(jso\),&%s\)!=0\)return0;" % iv, gi))
    out.append(lit("numGetIntShape", "Bool", b(shapei) if gi else None,
                   "get_int: uint64 >= INT64_MAX -> INT64_MAX; int64 clamped to int32 with ERANGE; NaN test before the cast; strings via json_parse_int64"))

    # ---- json_object_int_inc
    inc = norm(func_body(jo, "json_object_int_inc"))
    conds = [r"if\(val>0&&\w+->cint\.c_int64>INT64_MAX-val\)",
             r"elseif\(val<0&&\w+->cint\.c_int64<INT64_MIN-val\)",
             r"if\(val>0&&\w+->cint\.c_uint64>UINT64_MAX-\(uint64_t\)val\)",
             r"elseif\(val<0&&\w+->cint\.c_uint64<(-\(uint64_t\)val|\(uint64_t\)\(-val\)|\(uint64_t\)-val|-val)\)",
             r"elseif\(val<0&&\w+->cint\.c_uint64>=(-\(uint64_t\)val|\(uint64_t\)\(-val\)|\(uint64_t\)-val|-val)\)"]
    pos, ok, negs = 0, True, []
    for c in conds:
        m = re.compile(c).search(inc, pos)
        if not m:
            ok = False
            break
        pos = m.end()
        if m.groups():
            negs.append(m.group(1))
    m = re.search(r"\w+->cint\.c_uint64-=(-\(uint64_t\)val|\(uint64_t\)\(-val\)|\(uint64_t\)-val|-val);", inc)
    if m:
        negs.append(m.group(1))
    else:
        ok = False
    out.append(lit("numIncShape", "Bool", b(ok) if inc else None,
                   "int_inc: the five guarded branches, in order (int64: overflow up / down; uint64: overflow up / below zero / stays)"))
    out.append(lit("numIncNegatesUnsigned", "Bool", b(all(n == "-(uint64_t)val" for n in negs) if (inc and ok) else True),
                   "int_inc: the magnitude of a negative increment is computed as -(uint64_t)val (true) or by negating the int64 (false)"
                   + ("" if (inc and ok) else "  [NOT FOUND: default; numIncShape is false]")))

    # ---- json_parse_int64 / json_parse_uint64
    p64 = norm(func_body(ju, "json_parse_int64"))
    pu = norm(func_body(ju, "json_parse_uint64"))
    fail = r"if\(\((\w+)==0&&errno!=0\)\|\|\((\w+)==(\w+)\)\)\{errno=EINVAL;return1;\}return0;"
    okp = bool(re.search(r"errno=0;(\w+)=strtoll\((\w+),&(\w+),10\);if\(\3!=\2\)\*retval=\1;" + fail, p64))
    out.append(lit("numParseInt64Shape", "Bool", b(okp) if p64 else None,
                   "json_parse_int64: errno = 0; strtoll base 10; *retval written iff end != buf; (val == 0 && errno) || end == buf -> EINVAL, 1"))
    oku = bool(re.search(r"errno=0;while\(isspace\(\(unsignedchar\)\*(\w+)\)\)\1\+\+;if\(\*\1=='-'\)\{errno=EINVAL;return1;\}"
                         r"(\w+)=strtoull\(\1,&(\w+),10\);if\(\3!=\1\)\*retval=\2;" + fail, pu))
    out.append(lit("numParseUint64Shape", "Bool", b(oku) if pu else None,
                   "json_parse_uint64: errno = 0; skip isspace; '-' -> EINVAL, 1; strtoull base 10; *retval written iff end != buf; failure test as above"))
    out.append(lit("numCastGuardsFound", "Bool", b(all(FOUND) and len(FOUND) == 6),
                   "all six comparison operators guarding the double -> integer casts were located"))
    return "".join(out)
