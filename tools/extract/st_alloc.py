"""Allocation-failure facts (C08): the *shape* of the out-of-memory paths the allocation model
(lean/JsonC/Model/Alloc.lean) transcribes, read off the text of the anchored functions.  Each fact is a
Bool the model branches on; the theorems of Props/C08.lean need the value `true` and stop checking
(a named obligation) when the source no longer has that shape."""
import re
from structure import strip_c_comments, func_body, read, lit


def _b(name, value, comment):
    return lit(name, "Bool", "true" if value else "false", comment)


def _case_block(body, label):
    """text of `case <label>:` up to the next `case` label"""
    m = re.search(r"case\s+%s\s*:" % re.escape(label), body)
    if not m:
        return ""
    n = re.search(r"\bcase\s+\w+\s*:", body[m.end():])
    return body[m.end(): m.end() + n.start()] if n else body[m.end():]


def facts(repo, cfg):
    out = []
    jo = strip_c_comments(read(repo, "json_object.c"))
    al = strip_c_comments(read(repo, "arraylist.c"))
    pb = strip_c_comments(read(repo, "printbuf.c"))
    tk = strip_c_comments(read(repo, "json_tokener.c"))
    jp = strip_c_comments(read(repo, "json_pointer.c"))

    # _json_object_set_string_len, growing branch: malloc, NULL check with return, only then free(old pdata)
    b = func_body(jo, "_json_object_set_string_len")
    m = re.search(r"if\s*\(\s*\(\s*ssize_t\s*\)\s*len\s*>\s*curlen\s*\)", b)
    ok = False
    if m:
        blk = b[m.end():]
        e = re.search(r"\belse\b", blk)
        blk = blk[: e.start()] if e else blk
        i_m = blk.find("malloc(")
        i_r = blk.find("return", i_m) if i_m >= 0 else -1
        i_f = blk.find("free(")
        ok = 0 <= i_m < i_r < i_f
    out.append(_b("allocSetStrFreeAfterMalloc", ok,
                  "_json_object_set_string_len, growing branch: dstbuf = malloc(..); if (dstbuf == NULL) return 0; only then free(old pdata)"))

    # array_list_expand_internal: realloc result checked in a temporary before arr->array is assigned
    b = func_body(al, "array_list_expand_internal")
    direct = re.search(r"arr->array\s*=\s*(\([^()]*\)\s*)?realloc\s*\(", b) is not None
    temp = re.search(r"if\s*\(\s*!\s*\(\s*t\s*=\s*realloc\s*\(\s*arr->array\b[^;]*\)\s*\)\s*\)\s*return\s*-\s*1\s*;", b) is not None
    out.append(_b("allocAlExpandChecksTemp", temp and not direct,
                  "array_list_expand_internal: if (!(t = realloc(arr->array, ..))) return -1; arr->array = t"))
    b = func_body(al, "array_list_shrink")
    direct = re.search(r"arr->array\s*=\s*(\([^()]*\)\s*)?realloc\s*\(", b) is not None
    temp = re.search(r"if\s*\(\s*!\s*\(\s*t\s*=\s*realloc\s*\(\s*arr->array\b[^;]*\)\s*\)\s*\)\s*return\s*-\s*1\s*;", b) is not None
    out.append(_b("allocAlShrinkChecksTemp", temp and not direct,
                  "array_list_shrink: if (!(t = realloc(arr->array, ..))) return -1; arr->array = t"))

    # printbuf_extend: same shape
    b = func_body(pb, "printbuf_extend")
    direct = re.search(r"p->buf\s*=\s*(\([^()]*\)\s*)?realloc\s*\(", b) is not None
    temp = re.search(r"if\s*\(\s*!\s*\(\s*t\s*=\s*(\([^()]*\)\s*)?realloc\s*\(\s*p->buf\b[^;]*\)\s*\)\s*\)\s*return\s*-\s*1\s*;", b) is not None
    out.append(_b("allocPbExtendChecksTemp", temp and not direct,
                  "printbuf_extend: if (!(t = realloc(p->buf, new_size))) return -1; p->buf = t"))

    # tokener attach states release the completed child when the attach fails
    b = func_body(tk, "json_tokener_parse_ex")
    ok = True
    for lab, call in (("json_tokener_state_array_add", "json_object_array_add"),
                      ("json_tokener_state_object_value_add", "json_object_object_add")):
        blk = _case_block(b, lab)
        m = re.search(r"if\s*\(\s*%s\s*\([^;]*\)\s*!=\s*0\s*\)\s*\{([^}]*)\}" % call, blk)
        ok = ok and bool(m) and re.search(r"json_object_put\s*\(\s*obj\s*\)\s*;", m.group(1)) is not None \
            and "json_tokener_error_memory" in m.group(1) and "goto out" in m.group(1)
    out.append(_b("allocTokAttachPutsChild", ok,
                  "json_tokener_parse_ex, states array_add / object_value_add: on failure json_object_put(obj); tok->err = json_tokener_error_memory; goto out"))

    # json_object_object_add_ex frees its copy of the key when the insert fails
    b = func_body(jo, "json_object_object_add_ex")
    m = re.search(r"if\s*\(\s*lh_table_insert_w_hash\s*\([^;]*\)\s*!=\s*0\s*\)\s*\{(.*?)return\s*-\s*1\s*;", b, re.S)
    ok = bool(m) and re.search(r"if\s*\(\s*!\s*\(\s*opts\s*&\s*JSON_C_OBJECT_ADD_CONSTANT_KEY\s*\)\s*\)\s*free\s*\(", m.group(1)) is not None
    out.append(_b("allocObjAddFreesKeyOnFail", ok,
                  "json_object_object_add_ex: if (lh_table_insert_w_hash(..) != 0) { if (!(opts & CONSTANT_KEY)) free(k); return -1; }"))
    ok = re.search(r"strdup\s*\(\s*key\s*\)\s*;\s*if\s*\(\s*k\s*==\s*NULL\s*\)\s*return\s*-\s*1\s*;", b) is not None
    out.append(_b("allocObjAddChecksStrdup", ok, "json_object_object_add_ex: k = .. strdup(key); if (k == NULL) return -1;"))

    # json_object_deep_copy releases the partial copy
    b = func_body(jo, "json_object_deep_copy")
    ok = re.search(r"if\s*\(\s*rc\s*<\s*0\s*\)\s*\{\s*json_object_put\s*\(\s*\*\s*dst\s*\)\s*;\s*\*\s*dst\s*=\s*NULL\s*;", b) is not None
    out.append(_b("allocDeepCopyPutsPartial", ok, "json_object_deep_copy: if (rc < 0) { json_object_put(*dst); *dst = NULL; }"))
    b = func_body(jo, "json_object_deep_copy_recursive")
    n_put = len(re.findall(r"<\s*0\s*\)\s*\{\s*json_object_put\s*\(\s*jso\s*\)\s*;\s*return\s*-\s*1\s*;", b))
    out.append(_b("allocDeepCopyPutsChild", n_put == 4,
                  "json_object_deep_copy_recursive: the 4 failure branches (child copy / add, object / array) json_object_put(jso); return -1;"))

    # json_pointer_set_single_path: working copy of the key is freed on both paths
    b = func_body(jp, "json_pointer_set_single_path")
    ok = re.search(r"rc\s*=\s*json_object_object_add\s*\([^;]*\)\s*;\s*free\s*\(\s*key\s*\)\s*;\s*return\s+rc\s*;", b) is not None
    out.append(_b("allocPtrSetFreesKey", ok, "json_pointer_set_single_path: rc = json_object_object_add(parent, key, value); free(key); return rc;"))
    b = func_body(jp, "json_pointer_set_with_array_cb")
    ok = re.search(r"rc\s*=\s*json_pointer_object_get_recursive\s*\([^;]*\)\s*;\s*free\s*\(\s*path_copy\s*\)\s*;", b) is not None
    out.append(_b("allocPtrSetFreesPathCopy", ok, "json_pointer_set_with_array_cb: rc = json_pointer_object_get_recursive(..); free(path_copy);"))
    return "".join(out)
