"""json_util.c facts for C20 (fd I/O): the size of the last-error buffer and the literal format
strings handed to _json_c_set_last_err by the anchored functions, as byte lists (so that the
Lean kernel can compute with them).  A format that can no longer be located becomes `[]`:
the driver still builds (and predicts an empty message), the lemma `fmt…_lit` stops checking."""
import re
from structure import strip_c_comments, func_body, read, nat, find_int

LIT = r'"(?:[^"\\\n]|\\.)*"'


def c_unescape(body):
    out, i = bytearray(), 0
    simple = {"n": 10, "t": 9, "r": 13, "\\": 92, '"': 34, "'": 39, "0": 0, "a": 7, "b": 8, "f": 12, "v": 11, "?": 63}
    while i < len(body):
        c = body[i]
        if c == "\\" and i + 1 < len(body):
            d = body[i + 1]
            if d == "x":
                m = re.match(r"[0-9a-fA-F]+", body[i + 2:])
                out.append(int(m.group(0), 16) & 255)
                i += 2 + len(m.group(0))
                continue
            out.append(simple.get(d, ord(d) & 255))
            i += 2
        else:
            out += c.encode("utf-8")
            i += 1
    return bytes(out)


def set_err_formats(body):
    """literal format strings of the _json_c_set_last_err calls of a function body, in order"""
    res = []
    for m in re.finditer(r"_json_c_set_last_err\s*\(", body):
        m2 = re.match(r"(?:\s*%s)+" % LIT, body[m.end():])
        if not m2:
            res.append(None)
            continue
        lits = re.findall(LIT, m2.group(0))
        res.append(b"".join(c_unescape(l[1:-1]) for l in lits))
    return res


def pick(fmts, keyword, index, expected_count):
    """the format containing `keyword`; failing that, the one at `index` when the function still has
    the expected number of calls; failing that, nothing"""
    for f in fmts:
        if f is not None and keyword in f:
            return f
    if len(fmts) == expected_count and index < len(fmts) and fmts[index] is not None:
        return fmts[index]
    return None


def bytes_def(name, b, comment):
    if b is None:
        return "def %s : List UInt8 := []  -- NOT FOUND in source (%s)\n" % (name, comment)
    shown = b.decode("latin-1").replace("\\", "\\\\").replace("\n", "\\n")
    return "def %s : List UInt8 := [%s]  -- %s: \"%s\"\n" % (name, ", ".join(str(x) for x in b), comment, shown)


def facts(repo, cfg):
    src = strip_c_comments(read(repo, "json_util.c"))
    out = []
    out.append(nat("lastErrSize", find_int(src, r"static\s+char\s+_last_err\s*\[\s*(\d+)\s*\]"),
                   "json_util.c: static char _last_err[N]"))
    fd_ex = set_err_formats(func_body(src, "json_object_from_fd_ex"))
    out.append(bytes_def("fmtFromFdPbNew", pick(fd_ex, b"printbuf_new", 0, 5), "json_object_from_fd_ex, printbuf_new failed"))
    out.append(bytes_def("fmtFromFdTokNew", pick(fd_ex, b"json_tokener(", 1, 5), "json_object_from_fd_ex, json_tokener_new_ex failed"))
    out.append(bytes_def("fmtFromFdAppend", pick(fd_ex, b"printbuf_memappend", 2, 5), "json_object_from_fd_ex, printbuf_memappend failed"))
    out.append(bytes_def("fmtFromFdRead", pick(fd_ex, b"error reading", 3, 5), "json_object_from_fd_ex, read failed"))
    out.append(bytes_def("fmtFromFdParse", pick(fd_ex, b"parse_ex", 4, 5), "json_object_from_fd_ex, parse failed"))
    ff = set_err_formats(func_body(src, "json_object_from_file"))
    out.append(bytes_def("fmtFromFileOpen", pick(ff, b"opening", 0, 1), "json_object_from_file, open failed"))
    tf = set_err_formats(func_body(src, "json_object_to_file_ext"))
    out.append(bytes_def("fmtToFileNull", pick(tf, b"null", 0, 2), "json_object_to_file_ext, obj == NULL"))
    out.append(bytes_def("fmtToFileOpen", pick(tf, b"opening", 1, 2), "json_object_to_file_ext, open failed"))
    td = set_err_formats(func_body(src, "json_object_to_fd"))
    out.append(bytes_def("fmtToFdNull", pick(td, b"null", 0, 1), "json_object_to_fd, obj == NULL"))
    tw = set_err_formats(func_body(src, "_json_object_to_fd"))
    out.append(bytes_def("fmtToFdWrite", pick(tw, b"writing", 0, 1), "_json_object_to_fd, write failed"))
    # the default file name used in the write-error message
    body = func_body(src, "_json_object_to_fd")
    m = re.search(r"filename\s*=\s*filename\s*\?\s*filename\s*:\s*(%s)" % LIT, body)
    out.append(bytes_def("fdDefaultName", c_unescape(m.group(1)[1:-1]) if m else None, "_json_object_to_fd, filename default"))
    return "".join(out)
