"""Asks the Lean specification (Spec/Rfc8259 via the `doc` op of driver-tok) what an RFC 8259 text denotes."""
import subprocess
import common as C


def ask_docs(items):
    """items: list of (depth_limit, text bytes) -> list of dict(valid, nest, fits, knf, deep, dump)"""
    lines = ["# q"] + ["doc %d %s" % (d, C.hexs(t)) for d, t in items]
    out, err, rc = C.run_lines([C.driver_path("tok")], lines, timeout=600)
    res = []
    for l in out[1:]:
        m = l.split(" @@ ")[0].split(" ")
        if len(m) >= 7 and m[1] == "ok":
            res.append({"valid": True, "nest": int(m[2]), "fits": m[3] == "true", "knf": m[4] == "true",
                        "deep": None if m[5] == "-" else int(m[5]), "dump": m[6]})
        else:
            res.append({"valid": False})
    if len(res) != len(items):
        raise C.BuildError("specification oracle answered %d of %d questions: %s" % (len(res), len(items), err[-500:]))
    return res


def fields(line):
    sp = line.split(" ## ")[0].split(" ")
    return int(sp[0]), int(sp[1]), sp[2]
