#!/usr/bin/env python3
"""Writes MANIFEST.json from the table below (kept here so the manifest is always valid)."""
import json, os
HERE = os.path.dirname(os.path.abspath(__file__))
VERIF = os.path.dirname(HERE)

CLAIMED = {}   # entries come from tools/props/cXX.py: MANIFEST = dict(text=, note=, technique=, design=)

def load_claimed():
    """a property is claimed when tools/props/cXX.py exists and defines MANIFEST = dict(text, note, technique, design)"""
    import importlib, sys, glob
    sys.path.insert(0, HERE)
    res = dict(CLAIMED)
    allow = {l.strip() for l in open(os.path.join(HERE, "claimed.txt")) if l.strip() and not l.startswith("#")}
    for f in sorted(glob.glob(os.path.join(HERE, "props", "c*.py"))):
        pid = os.path.basename(f)[:-3].upper()
        if pid not in allow:
            continue
        try:
            mod = importlib.import_module("props." + pid.lower())
        except Exception as e:
            print("manifest_gen: cannot import %s: %r" % (f, e))
            continue
        m = getattr(mod, "MANIFEST", None)
        if m:
            res[pid] = m
    return res


REASONS_PENDING = "not claimed yet in this revision of /verif: model and theorems for this property are still being built (see DESIGN.md section 10)"

def main():
    global CLAIMED
    props = [json.loads(l) for l in open(os.path.join(VERIF, "properties.jsonl"))]
    checks, na = [], []
    CLAIMED = load_claimed()
    for p in props:
        pid = p["id"]
        if pid in CLAIMED:
            c = CLAIMED[pid]
            checks.append({
                "property_id": pid,
                "quick_cmd": "python3 tools/check.py %s --tier quick" % pid,
                "thorough_cmd": "python3 tools/check.py %s --tier thorough" % pid,
                "evidence_file": "evidence/%s.json" % pid,
                "replay_cmd_template": "python3 tools/check.py %s --replay {path}" % pid,
                "engine": "lean4-proof+correspondence",
                "level_claimed": {"category": "proof", "text": c["text"], "design_ref": "DESIGN.md section " + c["design"]},
                "level_note": c["note"],
                "technique": c["technique"],
            })
        else:
            na.append({"property_id": pid, "reason": REASONS_PENDING})
    man = {
        "version": 1,
        "setup_cmd": "python3 tools/setup.py",
        "hooks": {"guard": "JSON_C_VERIF",
                  "enable": "checks compile /repo/*.c themselves with -DJSON_C_VERIF (tools/common.py VARIANTS); no source hooks are needed so far",
                  "baseline_off_cmd": "cmake -G Ninja -S /repo -B /repo/_build -DCMAKE_BUILD_TYPE=Debug && cmake --build /repo/_build -j8 && ctest --test-dir /repo/_build -j8 --timeout 900",
                  "source_commits": [], "add_only": True},
        "engines": [{"name": "lean4-proof+correspondence", "path": "tools/check.py",
                     "serves_properties": sorted(CLAIMED),
                     "kind_free_text": "Lean 4 theorems about an executable model (lean/JsonC), re-checked on every run with constants regenerated from "
                                       "/repo; compiled Lean driver and C harness (built from /repo's working tree under ASan/UBSan) run on the same generated "
                                       "operation lines and compared three-way (implementation / model / specification)"}],
        "checks": checks,
        "not_applicable": na,
        "notes": "See DESIGN.md. Replay files are written under build/replay/.",
    }
    json.dump(man, open(os.path.join(VERIF, "MANIFEST.json"), "w"), indent=1)
    print("MANIFEST.json: %d checks, %d not claimed" % (len(checks), len(na)))

if __name__ == "__main__":
    main()
