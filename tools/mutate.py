#!/usr/bin/env python3
"""mutate.py [-j N] [-n COUNT] [--seed S] [files...]: a small mutation-testing campaign (development tool, not a
registered check).

For randomly chosen single-token mutations of /repo's C sources (relational / logical / arithmetic operator swaps,
off-by-one constants, dropped statements, flipped return codes) it
  1. applies the mutation to a private copy of /repo under $MUT_TMP (default /tmp/mut),
  2. builds it and runs the repository's own test suite there; mutants the suite kills are of no interest,
  3. runs the checks that look at the mutated file (private copy of /verif per worker, VERIF_REPO = the mutant),
  4. records in build/mutants.jsonl which checks reported a violation.
Survivors (suite passes, every check passes) are either equivalent mutants or holes in the checks; they are listed at
the end for inspection.  /repo and /verif themselves are not touched."""
import json, os, random, re, shutil, subprocess, sys, time
from concurrent.futures import ThreadPoolExecutor
VERIF = os.path.dirname(os.path.dirname(os.path.abspath(__file__)))
REPO = "/repo"
TMP = os.environ.get("MUT_TMP", "/tmp/mut")

CHECKS = {
    "json_tokener.c": ["C04", "C01", "C03", "C15", "C16", "C14", "C08"],
    "json_object.c": ["C02", "C05", "C09", "C10", "C11", "C07", "C08", "C18"],
    "linkhash.c": ["C06", "C08", "C18"],
    "arraylist.c": ["C07", "C08"],
    "printbuf.c": ["C19", "C08"],
    "json_pointer.c": ["C12", "C13"],
    "json_patch.c": ["C13"],
    "json_util.c": ["C20", "C10"],
    "json_visit.c": ["C17"],
    "json_object_iterator.c": ["C06"],
    "printbuf.h": ["C19", "C02"],
    "linkhash.h": ["C06", "C05"],
    "json_object.h": ["C06", "C17", "C02"],
    "json_object_private.h": ["C11", "C10", "C09"],
    "arraylist.h": ["C07"],
    "random_seed.c": ["C18", "C06"],
    "math_compat.h": ["C10", "C02", "C09"],
}

SWAPS = [(r"<=", "<"), (r">=", ">"), (r"(?<![<>=!-])<(?![<=])", "<="), (r"(?<![<>=!-])>(?![>=])", ">="), (r"==", "!="), (r"!=", "=="),
         (r"&&", "||"), (r"\|\|", "&&"), (r"\+ 1\b", "+ 0"), (r"- 1\b", "- 0"), (r"\+ 1\b", "+ 2"), (r"(?<=[\w\)\]]) \+ (?=[\w\(])", " - "),
         (r"(?<=[\w\)\]]) - (?=[\w\(])", " + "), (r"return -1;", "return 0;"), (r"return 0;", "return -1;"), (r"return 1;", "return 0;"),
         (r"\+\+", "--"), (r"\bINT_MAX\b", "(INT_MAX - 1)"), (r"\b0x1f\b", "0x20"), (r"\b0x7f\b", "0x80"), (r"!(?=[\w\(])", "")]


def sh(cmd, **kw):
    return subprocess.run(cmd, stdout=subprocess.PIPE, stderr=subprocess.STDOUT, text=True, **kw)


def sites(fname):
    """(line number, description, new line) for every applicable mutation of every code line"""
    src = open(os.path.join(REPO, fname)).read().split("\n")
    out = []
    incomment = False
    for i, line in enumerate(src):
        s = line.strip()
        if incomment:
            if "*/" in s:
                incomment = False
            continue
        if s.startswith("/*") and "*/" not in s:
            incomment = True
            continue
        if s.startswith("#define") and "(" in s.split()[1] if len(s.split()) > 1 else False:
            pass        # function-like macro: its body is code
        elif not s or s.startswith(("#", "//", "/*", "*")) or "MC_" in s or "assert" in s or "printf" in s and "snprintf" not in s:
            continue
        code = re.sub(r'"(?:[^"\\]|\\.)*"|\'(?:[^\'\\]|\\.)*\'', lambda m: " " * len(m.group(0)), line)
        code = re.sub(r"//.*|/\*.*?\*/", lambda m: " " * len(m.group(0)), code)
        for pat, rep in SWAPS:
            for m in re.finditer(pat, code):
                new = line[:m.start()] + rep + line[m.end():]
                out.append((i, "%s -> %s" % (m.group(0), rep), new))
        # dropped statement: a simple assignment or call on one line
        if re.match(r"^\s*[\w\->\.\[\]\*\(\) ]+(=[^=]|\().*;\s*$", line) and not re.match(r"^\s*(return|goto|break|continue|case|if|for|while|else)\b", line) \
                and "=" in line and not re.search(r"^\s*(const |struct |int |size_t |char |unsigned |double |json_|uint|int64|static )", line):
            out.append((i, "drop statement", re.match(r"^\s*", line).group(0) + ";"))
    return out


def run_mutant(job):
    k, fname, lineno, desc, newline, worker = job
    wdir = os.path.join(TMP, "w%d" % worker)
    mrepo = os.path.join(wdir, "repo")
    mverif = os.path.join(wdir, "verif")
    os.makedirs(wdir, exist_ok=True)
    sh(["rsync", "-a", "--delete", "--exclude", "_build", REPO + "/", mrepo + "/"])
    if not os.path.isdir(mverif):
        sh(["rsync", "-a", "--exclude", ".git", "--exclude", "build/replay", "--exclude", "build/scratch", "--exclude", "seeded", VERIF + "/", mverif + "/"])
    p = os.path.join(mrepo, fname)
    lines = open(p).read().split("\n")
    old = lines[lineno]
    lines[lineno] = newline
    open(p, "w").write("\n".join(lines))
    rec = {"id": k, "file": fname, "line": lineno + 1, "mutation": desc, "old": old.strip(), "new": newline.strip()}
    b = os.path.join(mrepo, "_build")
    shutil.rmtree(b, ignore_errors=True)      # (rsync restores sources with their old mtime: an incremental build would keep stale objects)
    r = sh(["cmake", "-G", "Ninja", "-S", mrepo, "-B", b, "-DCMAKE_BUILD_TYPE=Debug"])
    r = sh(["cmake", "--build", b, "-j3"])
    if r.returncode != 0:
        rec["outcome"] = "does-not-compile"
        return rec
    r = sh(["ctest", "--test-dir", b, "-j3", "--timeout", "120"])
    if "100% tests passed" not in r.stdout:
        rec["outcome"] = "killed-by-suite"
        return rec
    env = dict(os.environ, VERIF_REPO=mrepo, VERIF_SEED="1")
    rec["checks"] = {}
    for c in CHECKS.get(fname, []):
        rr = sh(["python3", os.path.join(mverif, "tools", "check.py"), c], cwd=mverif, env=env, timeout=1500)
        viol = [l for l in rr.stdout.split("\n") if l.startswith("VIOLATION")]
        rec["checks"][c] = {"exit": rr.returncode, "concrete": any("no-failing-input-found" not in v for v in viol)}
        if rr.returncode == 1:
            break       # one alarm is enough
    rec["outcome"] = "detected" if any(v["exit"] == 1 for v in rec["checks"].values()) else "SURVIVED"
    return rec


def main():
    a = sys.argv[1:]
    j, n, seed = 4, 60, 1
    files = []
    while a:
        x = a.pop(0)
        if x == "-j":
            j = int(a.pop(0))
        elif x == "-n":
            n = int(a.pop(0))
        elif x == "--seed":
            seed = int(a.pop(0))
        else:
            files.append(x)
    files = files or list(CHECKS)
    rng = random.Random(seed)
    allsites = []
    for f in files:
        for (i, d, new) in sites(f):
            allsites.append((f, i, d, new))
    rng.shuffle(allsites)
    chosen = allsites[:n]
    print("%d mutation sites in %s; running %d" % (len(allsites), files, len(chosen)), flush=True)
    jobs = [(k, f, i, d, new, k % j) for k, (f, i, d, new) in enumerate(chosen)]
    # one worker directory per thread: give each worker its own queue so that directories are never shared
    queues = [[jb for jb in jobs if jb[5] == w] for w in range(j)]
    out = open(os.path.join(VERIF, "build", "mutants.jsonl"), "a")

    def work(q):
        res = []
        for jb in q:
            try:
                r = run_mutant(jb)
            except Exception as e:
                r = {"id": jb[0], "file": jb[1], "line": jb[2] + 1, "mutation": jb[3], "outcome": "error: %s" % e}
            out.write(json.dumps(r) + "\n"); out.flush()
            print("%3d %-22s:%-5d %-18s %s" % (r["id"], r["file"], r["line"], r["mutation"][:18], r["outcome"]), flush=True)
            res.append(r)
        return res
    with ThreadPoolExecutor(j) as ex:
        results = [r for rs in ex.map(work, queues) for r in rs]
    shutil.rmtree(TMP, ignore_errors=True)
    surv = [r for r in results if r["outcome"] == "SURVIVED"]
    print("\n%d mutants: %s" % (len(results), {o: sum(1 for r in results if r["outcome"] == o) for o in sorted(set(r["outcome"] for r in results))}))
    for r in surv:
        print("SURVIVED %s:%d  %s\n    old: %s\n    new: %s" % (r["file"], r["line"], r["mutation"], r["old"], r["new"]))


if __name__ == "__main__":
    main()
