#!/usr/bin/env python3
"""setup_cmd: build the framework offline from files on disk (cmake configure-only for the
generated headers, source->Lean extraction, lake build of the library + driver, C harnesses)."""
import json, os, sys, importlib
sys.path.insert(0, os.path.dirname(os.path.abspath(__file__)))
import common as C

def main():
    C.ensure_cfg()
    C.ensure_generated()
    man = json.load(open(os.path.join(C.VERIF, "MANIFEST.json")))
    for chk in man["checks"]:
        pid = chk["property_id"].lower()
        try:
            P = importlib.import_module("props." + pid)
            ok, out = C.lake(["driver-" + P.COMPONENT, "JsonC.Props." + pid.upper()] + ["JsonC.Lemmas." + m for m in getattr(P, "TIE", ())])
            if not ok:
                print(out[-4000:])
                print("setup: lake build failed for " + pid)
                return 1
            if hasattr(P, "prepare"):
                P.prepare(C, "quick")
            C.build_harness(P.HARNESS, getattr(P, "VARIANT", "asan"), getattr(P, "EXTRA_FLAGS", ()), getattr(P, "WRAPS", ()))
        except Exception as e:
            print("setup: harness for %s: %r" % (pid, e))
            return 1
    # the reference workspace (theorems and drivers for the reference facts) used when /repo's regenerated facts are
    # not covered by the theorems: on this tree it is a copy of the build just made
    try:
        C.ensure_reflake()
        if not C.facts_changed():
            pass
        else:
            ok, out = C.lake_ref(["JsonC"] )
    except Exception as e:
        print("setup: reference workspace: %r" % e)
        return 1
    print("setup ok")
    return 0

if __name__ == "__main__":
    sys.exit(main())
