#!/usr/bin/env python3
"""
Search for a failing input at the level of the translated code.

When a theorem about a translated function (Lemmas/Translated*.lean) no longer checks, the correspondence run can only
look for a failing input among states it can allocate - it cannot build a 2 GiB print buffer or an array list of 2^61
slots, which is where the guards those theorems are about sit.  The translation can: both the translation of the current
source (Generated/Translated.lean) and the translation the theorems were proved about (lean/ref/Translated.lean.ref) are
executable functions over integers.  This module runs both on boundary-biased argument tuples (INT_MAX-, SIZE_MAX-adjacent
values, values relative to one another: x = y + d, x = K - y - d) drawn from reachable states (bpos < size, length within the
allocation, environment answers consistent with a successful / failed callee) and reports an input on which

  * the current code is undefined (a `fault`: signed overflow, shift out of range, ...) where the reference code is defined,
  * an API-visible result differs (return value, errno, bpos / length, the arguments of memcpy/memmove/memset/free/the
    terminating store), or
  * the function's own postcondition fails on the current code alone (printbuf_extend / array_list_expand_internal: success
    means the capacity covers the request, the allocation requested is the capacity recorded, nothing wraps).

A difference in the growth *policy* alone (another capacity that still covers the request) is not a hit.  The search only
applies while the parameter list of the translated function is unchanged (same loads, calls and locals in the same order) -
otherwise the code was restructured and the check falls back to the correspondence run alone.
"""
import os, random, re, subprocess, sys, json
sys.path.insert(0, os.path.dirname(os.path.abspath(__file__)))
import common as C

IMAX = 2**31 - 1
SMAX = 2**64 - 1

B32 = sorted(set([-2**31, -2**31 + 1, -9, -8, -2, -1, 0, 1, 2, 7, 8, 9, 31, 32, 33, 64, 2**30 - 2, 2**30 - 1, 2**30, 2**30 + 1,
                  IMAX // 2 - 1, IMAX // 2, IMAX // 2 + 1] + [IMAX - k for k in range(0, 12)]))
B32P = [v for v in B32 if v >= 0]
B64 = sorted(set([0, 1, 2, 3, 7, 8, 9, 31, 32, 33, 2**31 - 1, 2**31, 2**32 - 1, 2**32, 2**60, SMAX // 16 - 1, SMAX // 16, SMAX // 16 + 1,
                  SMAX // 8 - 2, SMAX // 8 - 1, SMAX // 8, SMAX // 8 + 1, SMAX // 4, SMAX // 2 - 1, SMAX // 2, SMAX // 2 + 1,
                  SMAX - 9, SMAX - 8, SMAX - 2, SMAX - 1, SMAX]))
S64 = sorted(set([-2**63, -2**63 + 1, -2, -1, 0, 1, 2, 2**31, 2**62, 2**63 - 2, 2**63 - 1]))

PB = dict(width=32, K=[IMAX])
AL = dict(width=64, K=[SMAX, SMAX // 8, SMAX // 2])

# function -> description.  `api`: Out fields compared with the reference; `post`: Lean Bool over the arguments and `n`.
SPECS = {
    "printbuf_extend": dict(mod="TranslatedPb", fam=PB, api=["ret", "errno"],
        post='(if n.ret = 0 then (decide (n.p_size ≥ min_size) && decide (n.p_size ≥ p_size) && decide (n.p_size ≤ 2147483647) && '
             'n.calls.all (fun c => c.1 != "realloc" || c.2 == [p_buf, n.p_size])) else decide (n.p_size = p_size))'),
    # `env`: the callee answers handed in are ones the callee can give.  printbuf_extend(p, need) with need <= size is a no-op
    # answering 0 that leaves buffer and size alone - the havoc values handed in describe a reallocation, so such tuples are
    # skipped; `tr` = the calls of both runs
    "printbuf_memappend": dict(mod="TranslatedPb", fam=PB, api=["ret", "errno", "p_bpos"], post="true",
        env='tr.all (fun c => c.1 != "printbuf_extend" || (match c.2 with | [_, need] => decide (need > p_size) | _ => true))'),
    "printbuf_memset": dict(mod="TranslatedPb", fam=PB, api=["ret", "errno", "pb_bpos"], post="true",
        env='tr.all (fun c => c.1 != "printbuf_extend" || (match c.2 with | [_, need] => decide (need > pb_size) | _ => true))'),
    "array_list_expand_internal": dict(mod="TranslatedAl", fam=AL, api=["ret"],
        post='(if n.ret = 0 then (decide (n.arr_size ≥ max) && decide (n.arr_size ≥ arr_size) && decide (n.arr_size * 8 ≤ 18446744073709551615) && '
             'n.calls.all (fun c => c.1 != "realloc" || c.2 == [arr_array, n.arr_size * 8])) else decide (n.arr_size = arr_size))'),
    "array_list_shrink": dict(mod="TranslatedAl", fam=AL, api=["ret", "arr_length"],
        post='(n.ret != 0 || n.calls.all (fun c => c.1 != "realloc" || (c.2 == [arr_array, n.arr_size * 8] && decide (n.arr_size ≥ arr_length + empty_slots) && decide (n.arr_size * 8 ≤ 18446744073709551615))))'),
    "array_list_put_idx": dict(mod="TranslatedAl", fam=AL, api=["ret", "arr_length"], post="true"),
    "array_list_add": dict(mod="TranslatedAl", fam=AL, api=["ret", "arr_length"], post="true"),
    "array_list_insert_idx": dict(mod="TranslatedAl", fam=AL, api=["ret", "arr_length"], post="true"),
    "array_list_del_idx": dict(mod="TranslatedAl", fam=AL, api=["ret", "arr_length"], post="true"),
    "json_object_int_inc": dict(mod="TranslatedNum", fam=dict(width=64, K=[2**63 - 1, SMAX]), api=["ret", "jsoint_cint", "jsoint_cint_type"], post="true"),
}
# arraylist callers: array_list_expand_internal(arr, max) cannot succeed for max > SIZE_MAX / sizeof(void *) (the capacity is at most
# that, so the request is not below it and the new size is refused); array_list_put_idx(arr, idx, ..) needs idx + 1 slots
AL_ENV = {
    "array_list_expand_internal": 'tr.all (fun c => c.1 != "array_list_expand_internal" || (match c.2 with | [_, mx] => decide (mx ≤ 2305843009213693951) || decide (CALLEE_array_list_expand_internal ≠ 0) | _ => true))',
    "array_list_put_idx": 'tr.all (fun c => c.1 != "array_list_put_idx" || (match c.2 with | [_, ix, _] => decide (ix < 2305843009213693951) || decide (CALLEE_array_list_put_idx ≠ 0) | _ => true))',
}
STRLEN = sorted(set([0, 1, 7, 8, 9, 31, 32, 4096] + [IMAX - k for k in range(0, 6)] + [2**31, 2**31 + 1, 2**32 - 1, 2**32, 2**63 - 1, 2**63, SMAX - 1, SMAX]))
SPECS["_json_object_set_string_len"] = dict(mod="TranslatedStr", fam=dict(width=64, K=[IMAX]), api=["ret", "jso_len"], post="true",
    # a string node (type 6) or another one; the length field in both representations (>= 0: inline, < 0: separate buffer)
    pools={"jso_o_type": [6, 6, 6, 6, 3], "len": STRLEN, "jso_len": [0, 1, 7, 8, 31, 32, 4096, IMAX - 2, -1, -8, -9, -32, -4096, -(IMAX - 2)],
           "c8_get_string_component_mutable": [8192], "jso_c_string": [12288], "jso": [4096, 4096, 4096, 0], "s": [20480]})
KEEP_CALLS = ["memmove", "memcpy", "memset", "free", "store1", "store8"]


def params_of(text, fn):
    m = re.search(r'^def %s ((?:\([^)]*\) )+): Outcome' % re.escape(fn), text, re.M)
    if not m:
        return None
    return [(a.strip(), b.strip()) for a, b in re.findall(r'\(([^:()]+):([^()]+)\)', m.group(1))]


def out_fields(text, fn):
    m = re.search(r'^structure %s\.Out where\n((?:  .*\n)+)' % re.escape(fn), text, re.M)
    return [l.split(":")[0].strip() for l in m.group(1).splitlines() if ":" in l and "deriving" not in l] if m else []


def role(name):
    """(kind, base field) of a translated parameter"""
    m = re.match(r'([chmu])(\d+)_(.*)$', name)
    if m:
        return m.group(1), m.group(3)
    return "arg", name


def gen_inputs(fn, params, rng, n):
    """boundary-biased argument tuples drawn from reachable states"""
    fam = SPECS[fn]["fam"]
    w = fam["width"]
    names = [p for p, _ in params]
    rows = []
    for _ in range(n * 4):
        if len(rows) >= n:
            break
        v = {}
        numeric = []
        pools = SPECS[fn].get("pools", {})
        for name, ty in params:
            kind, base = role(name)
            if name in pools:
                v[name] = rng.choice(pools[name])
                continue
            if ty.startswith("Nat →"):
                v[name] = rng.choice([0, 1, 4096])
                continue
            if name == "fuel":
                v[name] = 40
                continue
            if kind == "arg" and name in ("p", "pb", "arr", "jso", "buf", "data") or base.endswith("_buf") or base.endswith("_array") or base.endswith("free_fn"):
                if kind == "h":
                    v[name] = 24576
                else:
                    v[name] = 4096 if name in ("p", "pb", "arr", "jso") else rng.choice([8192, 8192, 0]) if name in ("data",) or base.endswith("free_fn") else 8192
                continue
            if kind == "c":
                if base in ("realloc", "malloc", "calloc"):
                    v[name] = rng.choice([16384, 16384, 0])
                elif base in ("memcpy", "memset", "memmove"):
                    v[name] = 8192
                else:
                    v[name] = rng.choice([0, 0, -1])
                continue
            if kind == "u":
                v[name] = 0
                continue
            if base == "errno":
                v[name] = 0
                continue
            if kind == "h":
                continue            # filled below from the state it shadows
            numeric.append(name)
        # numeric arguments / state
        for name in numeric:
            if fn == "json_object_int_inc":
                pool = {"val": S64, "jso_o_type": [3, 3, 3, 1], "jsoint_cint_type": [0, 1], "jsoint_cint": S64 + B64}.get(name, S64)
                v[name] = rng.choice(pool)
                continue
            pool = B32 if w == 32 else B64
            if re.match(r'(p|pb|arr)_(size|bpos|length)$', name):
                pool = B32P if w == 32 else B64
            v[name] = rng.choice(pool)
        # relative values
        if len(numeric) >= 2 and fn != "json_object_int_inc":
            for _k in range(rng.choice([0, 1, 1, 2])):
                a, b = rng.sample(numeric, 2)
                if rng.random() < 0.5:
                    v[a] = v[b] + rng.choice([-2, -1, 0, 1, 2])
                else:
                    v[a] = rng.choice(fam["K"]) - v[b] - rng.choice([-1, 0, 1, 2, 8, 9])
        lo, hi = (-2**31, IMAX) if w == 32 else (0, SMAX)
        if fn != "json_object_int_inc" and any(not (lo <= v[x] <= hi) for x in numeric):
            continue
        # reachable states
        g = lambda suffix: next((x for x in numeric if re.match(r'(p|pb|arr)' + suffix + '$', x)), None)
        size, bpos, length = g("_size"), g("_bpos"), g("_length")
        if w == 32:
            if size and not (1 <= v[size] <= IMAX):
                continue
            if size and bpos and not (0 <= v[bpos] < v[size]):
                continue
        else:
            if size and v[size] > SMAX // 8:
                continue
            if length and v[length] > SMAX // 8:
                continue
            if size and length and v[length] > v[size]:
                continue
        if fn == "json_object_int_inc" and v.get("jsoint_cint_type") == 0 and not (-2**63 <= v["jsoint_cint"] <= 2**63 - 1):
            continue
        if fn == "json_object_int_inc" and not (0 <= v["jsoint_cint"] or v["jsoint_cint_type"] == 0):
            continue
        # havoc after a call: what a consistent callee leaves behind
        callee = next((v[x] for x in names if role(x)[0] == "c" and role(x)[1] in ("printbuf_extend", "array_list_expand_internal", "array_list_put_idx")), 0)
        for name, ty in params:
            kind, base = role(name)
            if kind == "h" and name not in v:
                src = next((x for x in numeric if x == base), None)
                if src is None:
                    v[name] = v.get(base, 0)
                elif base.endswith("_size") and callee == 0:
                    v[name] = IMAX if w == 32 else SMAX // 8
                elif base.endswith("_length") and callee == 0 and fn == "array_list_insert_idx" and "put_idx" in " ".join(names):
                    v[name] = rng.choice([v[src], v[src] + 1]) if v[src] < SMAX // 8 else v[src]
                else:
                    v[name] = v[src]
        rows.append([v[nm] for nm in names])
    return rows


def lean_source(ref_text, fns, new_text):
    imports = [l for l in ref_text.splitlines() if l.startswith("import ")]
    body = "\n".join(l for l in ref_text.splitlines() if not l.startswith("import "))
    body = body.replace("namespace JsonC.Translated", "namespace JsonC.RefTranslated").replace("end JsonC.Translated", "end JsonC.RefTranslated")
    out = ["import JsonC.Generated.Translated"] + imports + ["set_option maxRecDepth 4000", body, "", "open JsonC",
           "/-- effects compared: block operations of non-zero length, free, stores -/",
           "def keepCall (c : String × List Int) : Bool := [%s].contains c.1 && !(c.1.startsWith \"mem\" && c.2.getLast? == some 0)" % ", ".join('"%s"' % k for k in KEEP_CALLS), ""]
    for fn in fns:
        ps = params_of(new_text, fn)
        pat = ", ".join(p for p, _ in ps)

        def conv(p, ty):
            if ty == "Nat":
                return "%s.toNat" % p
            if ty.startswith("Nat →"):
                return "(fun _ => %s)" % p
            return p
        args = " ".join(conv(p, ty) for p, ty in ps)
        api = [f for f in SPECS[fn]["api"] if f in out_fields(new_text, fn) and f in out_fields(ref_text, fn)]
        lines = ["def cmp_%s (a : List Int) : Option String :=" % fn,
                 "  match a with",
                 "  | [%s] =>" % pat,
                 "    match RefTranslated.%s %s, Translated.%s %s with" % (fn, args, fn, args),
                 "    | .fault _, _ => none",
                 '    | .ok _, .fault m => some s!"the current code is undefined here ({m}); the reference code is defined"',
                 "    | .ok r, .ok n =>"]
        env = SPECS[fn].get("env")
        if env is None and SPECS[fn]["fam"] is AL:
            env = " && ".join(AL_ENV[c] for c in AL_ENV if any(role(p) == ("c", c) for p, _ in ps)) or None
        if env:
            for p, _ in ps:
                if role(p)[0] == "c":
                    env = env.replace("CALLEE_" + role(p)[1], p).replace("CALLEE", p if role(p)[1] == "printbuf_extend" else "CALLEE")
            lines.append("      let tr := r.calls ++ n.calls")
            lines.append("      if !(%s) then none else" % env)
        first = True
        for f in api:
            lines.append('      %s r.%s ≠ n.%s then some s!"%s: {r.%s} (reference) vs {n.%s} (current)"' % ("if" if first else "else if", f, f, f, f, f))
            first = False
        lines.append('      %s r.calls.filter keepCall ≠ n.calls.filter keepCall then some s!"effects: {r.calls.filter keepCall} (reference) vs {n.calls.filter keepCall} (current)"' % ("if" if first else "else if"))
        lines.append('      else if !(%s) then some s!"postcondition fails on the current code: {repr n}"' % SPECS[fn]["post"])
        lines.append("      else none")
        lines.append("  | _ => some \"arity\"")
        out += lines + [""]
    out += ["def dispatch (fn : String) (a : List Int) : Option String :=",
            "  " + " else ".join('if fn == "%s" then cmp_%s a' % (fn, fn) for fn in fns) + " else none", "",
            "def main (args : List String) : IO Unit := do",
            "  let ls ← IO.FS.lines args.head!",
            "  let mut hits := 0",
            "  for l in ls do",
            "    match l.splitOn \" \" with",
            "    | fn :: rest =>",
            "      let a := rest.filterMap String.toInt?",
            "      match dispatch fn a with",
            "      | some m => if hits < 40 then IO.println s!\"HIT\\t{fn}\\t{a}\\t{m}\"",
            "                  hits := hits + 1",
            "      | none => pure ()",
            "    | _ => pure ()",
            "  IO.println s!\"DONE {ls.size} {hits}\""]
    return "\n".join(out) + "\n"


def search(tie_modules, seed=1, n=6000, log=print):
    """returns (hits, info).  hits: list of dicts {function, params, args, what}"""
    new_text = open(os.path.join(C.LEAN, "JsonC/Generated/Translated.lean")).read()
    ref_text = open(os.path.join(C.LEAN, "ref/Translated.lean.ref")).read()
    fns, skipped = [], []
    for fn, sp in SPECS.items():
        if sp["mod"] not in tie_modules:
            continue
        a, b = params_of(new_text, fn), params_of(ref_text, fn)
        if a is None or b is None or a != b:
            skipped.append(fn)
            continue
        fns.append(fn)
    info = {"functions": fns, "skipped_restructured": skipped, "inputs": 0}
    if not fns:
        return [], info
    ok, out = C.lake(["JsonC.Generated.Translated"])
    if not ok:
        info["skipped_reason"] = "Generated/Translated.lean does not compile"
        return [], info
    d = os.path.join(C.BUILD, "search")
    os.makedirs(d, exist_ok=True)
    rng = random.Random(seed)
    with open(os.path.join(d, "inputs.txt"), "w") as f:
        for fn in fns:
            rows = gen_inputs(fn, params_of(new_text, fn), rng, n)
            info["inputs"] += len(rows)
            for r in rows:
                f.write(fn + " " + " ".join(str(x) for x in r) + "\n")
    open(os.path.join(d, "Run.lean"), "w").write(lean_source(ref_text, fns, new_text))
    r = subprocess.run(["lake", "env", "lean", "--run", os.path.join(d, "Run.lean"), os.path.join(d, "inputs.txt")],
                       cwd=C.LEAN, stdout=subprocess.PIPE, stderr=subprocess.STDOUT, text=True, timeout=900)
    hits = []
    for l in r.stdout.splitlines():
        if l.startswith("HIT\t"):
            _, fn, a, what = l.split("\t", 3)
            hits.append({"function": fn, "params": [p for p, _ in params_of(new_text, fn)], "args": a, "what": what})
    if "DONE" not in r.stdout:
        info["skipped_reason"] = "search driver failed: " + r.stdout[-600:]
    return hits, info


if __name__ == "__main__":
    mods = sys.argv[1:] or ["TranslatedPb", "TranslatedAl", "TranslatedNum"]
    C.ensure_generated()
    hits, info = search(mods)
    print(json.dumps(info))
    for h in hits[:20]:
        print(h)
