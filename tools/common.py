"""Shared machinery for every check: builds (always from /repo's current working tree),
the source->Lean extraction, the proof audit, the differential runner, shrinking,
known findings and evidence.  See DESIGN.md sections 2, 4, 5, 9."""
import fcntl, glob, hashlib, json, os, random, re, shutil, subprocess, sys, time
from contextlib import contextmanager

HERE = os.path.dirname(os.path.abspath(__file__))
VERIF = os.path.dirname(HERE)
REPO = os.environ.get("VERIF_REPO", "/repo")
BUILD = os.path.join(VERIF, "build")
LEAN = os.path.join(VERIF, "lean")
CFG = os.path.join(BUILD, "cfg")
EVID = os.path.join(VERIF, "evidence")
REPLAY = os.path.join(BUILD, "replay")
NCPU = os.cpu_count() or 4

LIB_SOURCES = ["arraylist", "debug", "json_c_version", "json_object", "json_object_iterator",
               "json_patch", "json_pointer", "json_tokener", "json_util", "json_visit",
               "linkhash", "printbuf", "random_seed", "strerror_override"]

VARIANTS = {
    # name: (compiler, flags)
    "asan": ("gcc", ["-O1", "-g", "-fno-omit-frame-pointer",
                     "-fsanitize=address,undefined,float-cast-overflow",
                     "-fno-sanitize-recover=all", "-D_GNU_SOURCE", "-DJSON_C_VERIF"]),
    "plain": ("gcc", ["-O1", "-g", "-D_GNU_SOURCE", "-DJSON_C_VERIF"]),
    "tsan": ("clang", ["-O1", "-g", "-fsanitize=thread", "-DENABLE_THREADING", "-D_REENTRANT",
                       "-D_GNU_SOURCE", "-DJSON_C_VERIF", "-pthread"]),
    "thr": ("gcc", ["-O1", "-g", "-DENABLE_THREADING", "-D_REENTRANT", "-D_GNU_SOURCE",
                    "-DJSON_C_VERIF", "-pthread"]),
}


def log(*a):
    print(*a, file=sys.stderr, flush=True)


def sh(cmd, **kw):
    return subprocess.run(cmd, stdout=subprocess.PIPE, stderr=subprocess.STDOUT, text=True, **kw)


@contextmanager
def flock(name):
    os.makedirs(BUILD, exist_ok=True)
    f = open(os.path.join(BUILD, name + ".lock"), "w")
    fcntl.flock(f, fcntl.LOCK_EX)
    try:
        yield
    finally:
        fcntl.flock(f, fcntl.LOCK_UN)
        f.close()


def file_hash(paths):
    h = hashlib.sha256()
    for p in sorted(paths):
        h.update(p.encode())
        try:
            with open(p, "rb") as f:
                h.update(f.read())
        except OSError:
            h.update(b"<missing>")
    return h.hexdigest()[:16]


# ----------------------------------------------------------------------------- cfg headers
def ensure_cfg():
    """cmake configure-only run producing config.h / json_config.h / json.h for the current tree."""
    with flock("cfg"):
        ins = [os.path.join(REPO, "CMakeLists.txt")] + glob.glob(os.path.join(REPO, "cmake", "*")) \
            + glob.glob(os.path.join(REPO, "*.in")) + glob.glob(os.path.join(REPO, "*.cmakein"))
        key = file_hash(ins)
        stamp = os.path.join(CFG, ".verif_key")
        if os.path.exists(stamp) and open(stamp).read() == key and \
                os.path.exists(os.path.join(CFG, "config.h")):
            return
        shutil.rmtree(CFG, ignore_errors=True)
        os.makedirs(CFG, exist_ok=True)
        r = sh(["cmake", "-G", "Ninja", "-S", REPO, "-B", CFG, "-DCMAKE_BUILD_TYPE=Debug"])
        if r.returncode != 0 or not os.path.exists(os.path.join(CFG, "config.h")):
            raise BuildError("cmake configure failed:\n" + r.stdout[-3000:])
        open(stamp, "w").write(key)


class BuildError(Exception):
    pass


def source_key(variant, extra=()):
    srcs = glob.glob(os.path.join(REPO, "*.c")) + glob.glob(os.path.join(REPO, "*.h")) + \
        [os.path.join(CFG, f) for f in ("config.h", "json_config.h", "json.h")]
    h = hashlib.sha256()
    h.update(file_hash(srcs).encode())
    h.update(repr(VARIANTS[variant]).encode())
    h.update(repr(extra).encode())
    return h.hexdigest()[:16]


def _prune(parent, keep=4):
    ds = sorted((os.path.join(parent, d) for d in os.listdir(parent)), key=os.path.getmtime)
    for d in ds[:-keep]:
        shutil.rmtree(d, ignore_errors=True)


def build_lib(variant="asan"):
    """Compile /repo/*.c (current working tree) into objects; returns the object directory."""
    ensure_cfg()
    cc, flags = VARIANTS[variant]
    key = source_key(variant)
    parent = os.path.join(BUILD, "obj", variant)
    out = os.path.join(parent, key)
    with flock("lib-" + variant):
        if os.path.exists(os.path.join(out, ".done")):
            os.utime(out)
            return out
        os.makedirs(out, exist_ok=True)
        procs = []
        for s in LIB_SOURCES:
            cmd = [cc] + flags + ["-I", REPO, "-I", CFG, "-c", os.path.join(REPO, s + ".c"),
                                  "-o", os.path.join(out, s + ".o")]
            procs.append((s, subprocess.Popen(cmd, stdout=subprocess.PIPE, stderr=subprocess.STDOUT, text=True)))
        errs = []
        for s, p in procs:
            o, _ = p.communicate()
            if p.returncode != 0:
                errs.append(s + ".c:\n" + o[-2000:])
        if errs:
            shutil.rmtree(out, ignore_errors=True)
            raise BuildError("library does not compile (%s):\n%s" % (variant, "\n".join(errs)))
        open(os.path.join(out, ".done"), "w").write("ok")
        _prune(parent)
    return out


def build_harness(name, variant="asan", extra=(), wraps=()):
    """Compile harness/<name>.c against the library objects; returns path of the binary."""
    objdir = build_lib(variant)
    cc, flags = VARIANTS[variant]
    src = os.path.join(VERIF, "harness", name + ".c")
    hkey = file_hash([src, os.path.join(VERIF, "harness", "hcommon.h")]) + hashlib.sha256(repr((extra, wraps)).encode()).hexdigest()[:8]
    out = os.path.join(objdir, "h_%s_%s" % (name, hkey))
    with flock("h-%s-%s" % (name, variant)):
        if os.path.exists(out):
            return out
        objs = [os.path.join(objdir, s + ".o") for s in LIB_SOURCES]
        cmd = [cc] + flags + list(extra) + ["-I", REPO, "-I", CFG, "-I", os.path.join(VERIF, "harness"), src] + objs
        if wraps:
            cmd.append("-Wl," + ",".join("--wrap=" + w for w in wraps))
        cmd += ["-lm", "-o", out + ".tmp"]
        r = sh(cmd)
        if r.returncode != 0:
            raise BuildError("harness %s does not compile:\n%s" % (name, r.stdout[-3000:]))
        os.replace(out + ".tmp", out)
    return out


# ----------------------------------------------------------------------------- extraction
def write_if_changed(path, text):
    try:
        if open(path).read() == text:
            return False
    except OSError:
        pass
    os.makedirs(os.path.dirname(path), exist_ok=True)
    with open(path + ".tmp", "w") as f:
        f.write(text)
    os.replace(path + ".tmp", path)
    return True


def ensure_generated():
    """Regenerate lean/JsonC/Generated/*.lean from /repo's current headers and sources."""
    ensure_cfg()
    with flock("gen"):
        exe = os.path.join(BUILD, "consts")
        r = sh(["gcc", "-I", REPO, "-I", CFG, os.path.join(HERE, "extract", "consts.c"), "-o", exe])
        if r.returncode != 0:
            raise BuildError("constant extractor does not compile against the current headers:\n" + r.stdout[-3000:])
        r = subprocess.run([exe], stdout=subprocess.PIPE, text=True)
        if r.returncode != 0:
            raise BuildError("constant extractor failed")
        write_if_changed(os.path.join(LEAN, "JsonC", "Generated", "Consts.lean"), r.stdout)
        sys.path.insert(0, os.path.join(HERE, "extract"))
        import structure
        text = structure.generate(REPO, CFG)
        write_if_changed(os.path.join(LEAN, "JsonC", "Generated", "Structure.lean"), text)
        # selected functions translated from clang's typed AST of the current source (tools/extract/c2lean.py)
        import c2lean
        write_if_changed(os.path.join(LEAN, "JsonC", "Generated", "Translated.lean"), c2lean.generate(REPO, CFG))


# ----------------------------------------------------------------------------- lean
def lake(targets, timeout=3000):
    with flock("lake"):
        r = sh(["lake", "build"] + list(targets), cwd=LEAN, timeout=timeout)
    return r.returncode == 0, r.stdout


def driver_path(component):
    return os.path.join(LEAN, ".lake", "build", "bin", "driver-" + component)


# ----------------------------------------------------------------------------- reference facts
# lean/ref/*.ref are the extracted facts the committed theorems were checked against (the "proven model").
# When an edit of /repo changes a fact and a theorem stops checking, the search for a failing input must
# compare the implementation with the model the theorems are ABOUT - the one built from the reference
# facts - not with a model rebuilt from facts no theorem covers (that comparison produced bogus "failing
# inputs" on behaviour-preserving rewrites that merely moved a statement out of an extractor's sight).
GEN_FILES = ["Consts.lean", "Structure.lean", "Translated.lean"]


def _gen_path(n):
    return os.path.join(LEAN, "JsonC", "Generated", n)


def _ref_path(n):
    return os.path.join(LEAN, "ref", n + ".ref")


def facts_changed():
    """[(file, [changed lines...])] where the regenerated facts differ from the reference facts."""
    out = []
    for n in GEN_FILES:
        try:
            cur, ref = open(_gen_path(n)).read().split("\n"), open(_ref_path(n)).read().split("\n")
        except OSError:
            continue
        if cur != ref:
            cs, rs = set(cur), set(ref)
            out.append((n, ["- " + l for l in ref if l not in cs][:40] + ["+ " + l for l in cur if l not in rs][:40]))
    return out


REFLAKE = os.path.join(BUILD, "reflake")


def ensure_reflake():
    """build/reflake = a mirror of lean/ whose Generated/*.lean are the reference facts: the workspace in which the
    committed theorems and drivers (the "proven model") are rebuilt when /repo's regenerated facts are not covered by
    the theorems.  Created by copying lean/ with its build output (on an unchanged tree that output is already up to
    date for the reference facts), then kept in step with the Lean sources."""
    with flock("reflake"):
        if not os.path.isdir(os.path.join(REFLAKE, "JsonC")):
            shutil.rmtree(REFLAKE, ignore_errors=True)
            r = sh(["cp", "-a", LEAN, REFLAKE])
            if r.returncode != 0:
                raise BuildError("cannot create build/reflake: " + r.stdout[-500:])
        else:
            sh(["rsync", "-a", "--exclude", ".lake", "--exclude", "Generated", "--exclude", "ref", LEAN + "/", REFLAKE + "/"])
        for n in GEN_FILES:
            write_if_changed(os.path.join(REFLAKE, "JsonC", "Generated", n), open(_ref_path(n)).read())
    return REFLAKE


def lake_ref(targets, timeout=3000):
    ensure_reflake()
    with flock("reflake"):
        r = sh(["lake", "build"] + list(targets), cwd=REFLAKE, timeout=timeout)
    return r.returncode == 0, r.stdout


def ref_driver_path(component):
    return os.path.join(REFLAKE, ".lake", "build", "bin", "driver-" + component)


@contextmanager
def lean_root(path):
    """run the audits (which read LEAN) against another workspace"""
    global LEAN
    old = LEAN
    LEAN = path
    try:
        yield
    finally:
        LEAN = old


FORBIDDEN = re.compile(r"\b(sorry|admit|native_decide|bv_decide|implemented_by|unsafe)\b|^\s*axiom\s|maxHeartbeats\s+0\b")


def strip_comments(text):
    # remove /- ... -/ (nested) and -- ... comments
    out, i, depth = [], 0, 0
    n = len(text)
    while i < n:
        if text.startswith("/-", i):
            depth += 1; i += 2; continue
        if depth > 0 and text.startswith("-/", i):
            depth -= 1; i += 2; continue
        if depth > 0:
            if text[i] == "\n":
                out.append("\n")
            i += 1; continue
        if text.startswith("--", i):
            while i < n and text[i] != "\n":
                i += 1
            continue
        out.append(text[i]); i += 1
    return "".join(out)


def lean_sources():
    return sorted(glob.glob(os.path.join(LEAN, "JsonC", "**", "*.lean"), recursive=True))


def import_closure(prop):
    """the library files Props/<prop>.lean transitively imports (plus itself)"""
    seen, todo = set(), ["JsonC.Props." + prop]
    while todo:
        m = todo.pop()
        if m in seen or not m.startswith("JsonC"):
            continue
        seen.add(m)
        p = os.path.join(LEAN, *m.split(".")) + ".lean"
        try:
            txt = strip_comments(open(p).read())
        except OSError:
            continue
        todo += re.findall(r"^import\s+(\S+)", txt, re.M)
    return sorted(os.path.join(LEAN, *m.split(".")) + ".lean" for m in seen)


def audit_sources(prop=None):
    """grep for sorry/admit/axiom/native_decide/... outside comments in every library file the
    property's theorems depend on (all of lean/JsonC when no property is given)."""
    hits = []
    files = import_closure(prop) if prop else lean_sources()
    for p in files:
        if not os.path.exists(p):
            continue
        txt = strip_comments(open(p).read())
        for ln, line in enumerate(txt.split("\n"), 1):
            if FORBIDDEN.search(line):
                hits.append("%s:%d: %s" % (os.path.relpath(p, VERIF), ln, line.strip()))
    return hits


ALLOWED_AXIOMS = {"propext", "Classical.choice", "Quot.sound"}


def theorems_in(path):
    txt = strip_comments(open(path).read())
    ns = re.findall(r"^namespace\s+(\S+)", txt, re.M)
    names = re.findall(r"^(?:private\s+|protected\s+)?theorem\s+([^\s:({\[]+)", txt, re.M)
    prefix = (ns[0] + ".") if ns else ""
    return [prefix + n for n in names]


def theorems_of(prop, tie=()):
    """the property theorems of Props/<prop>.lean, plus the theorems of the property's tie modules
    (Lemmas/Translated*.lean: hand-written model = definitions translated from the current C source)"""
    out = theorems_in(os.path.join(LEAN, "JsonC", "Props", prop + ".lean"))
    for m in tie:
        out += theorems_in(os.path.join(LEAN, "JsonC", "Lemmas", m + ".lean"))
    return out


def audit_axioms(prop, tie=()):
    """#print axioms on every theorem of Props/<prop>.lean. Returns (results, problems)."""
    thms = theorems_of(prop, tie)
    if not thms:
        return {}, ["no theorems found in Props/%s.lean" % prop]
    tmp = os.path.join(BUILD, "audit_%s_%d.lean" % (prop, os.getpid()))
    with open(tmp, "w") as f:
        f.write("import JsonC.Props.%s\n" % prop)
        for m in tie:
            f.write("import JsonC.Lemmas.%s\n" % m)
        for t in thms:
            f.write("#print axioms %s\n" % t)
    # under the build lock: a concurrent check that is rebuilding a shared module (e.g. Generated.Structure after
    # /repo changed) must not pull the .olean files away while they are being read
    with flock("reflake" if LEAN == REFLAKE else "lake"):
        r = sh(["lake", "env", "lean", tmp], cwd=LEAN)
    os.unlink(tmp)
    res, problems = {}, []
    out = r.stdout
    for t in thms:
        m = re.search(r"'%s' depends on axioms: \[([^\]]*)\]" % re.escape(t), out, re.S)
        if m:
            ax = [a.strip() for a in m.group(1).replace("\n", " ").split(",") if a.strip()]
            res[t] = ax
            bad = [a for a in ax if a not in ALLOWED_AXIOMS]
            if bad:
                problems.append("%s depends on %s" % (t, bad))
        elif re.search(r"'%s' does not depend on any axioms" % re.escape(t), out):
            res[t] = []
        else:
            problems.append("%s: no axiom report (%s)" % (t, out.strip()[-300:]))
    return res, problems


def failing_decls(lake_output):
    """Names the declarations at which lake build failed (best effort)."""
    locs = re.findall(r"error: (\S+?\.lean):(\d+):(\d+)", lake_output)
    names = []
    for path, line, _ in locs:
        p = path if os.path.isabs(path) else os.path.join(LEAN, path)
        try:
            lines = open(p).read().split("\n")
        except OSError:
            continue
        for i in range(int(line) - 1, -1, -1):
            m = re.match(r"\s*(?:private\s+|protected\s+|@\[[^\]]*\]\s*)*(theorem|lemma|def|example|instance)\s+([^\s:({\[]+)?", lines[i])
            if m:
                names.append("%s:%s %s" % (os.path.basename(p), line, m.group(2) or m.group(1)))
                break
    return list(dict.fromkeys(names))


# ----------------------------------------------------------------------------- running
def run_lines(cmd, lines, env=None, timeout=600):
    """Feed `lines` to cmd on stdin, return (stdout lines, stderr text, returncode)."""
    e = dict(os.environ)
    e.setdefault("ASAN_OPTIONS", "detect_leaks=1:abort_on_error=0:exitcode=99:allocator_may_return_null=1")
    e.setdefault("UBSAN_OPTIONS", "print_stacktrace=1:halt_on_error=1")
    if env:
        e.update(env)
    try:
        r = subprocess.run(cmd, input="\n".join(lines) + "\n", stdout=subprocess.PIPE,
                           stderr=subprocess.PIPE, text=True, env=e, timeout=timeout, errors="replace")
        return r.stdout.split("\n")[:-1] if r.stdout.endswith("\n") else r.stdout.split("\n"), r.stderr, r.returncode
    except subprocess.TimeoutExpired as ex:
        out = ex.stdout.decode(errors="replace") if isinstance(ex.stdout, bytes) else (ex.stdout or "")
        return out.split("\n"), "TIMEOUT", -9


def hexs(b):
    return b.hex() if b else "-"


class Rng(random.Random):
    def chance(self, p):
        return self.random() < p

    def rbytes(self, n, alphabet=None):
        if alphabet is None:
            return bytes(self.randrange(256) for _ in range(n))
        return bytes(self.choice(alphabet) for _ in range(n))


def seed_from_env():
    try:
        return int(os.environ.get("VERIF_SEED", "1"))
    except ValueError:
        return 1


# ----------------------------------------------------------------------------- known findings
def load_known():
    p = os.path.join(VERIF, "KNOWN_FINDINGS.json")
    try:
        return json.load(open(p))
    except OSError:
        return {"findings": [], "fixed": []}


# ----------------------------------------------------------------------------- evidence
def write_evidence(prop, tier, seed, level, coverage, assumptions, wall, violations):
    os.makedirs(EVID, exist_ok=True)
    ev = {"property_id": prop, "tier": tier, "seed": seed, "level": level, "coverage": coverage,
          "assumptions": assumptions, "wall_s": round(wall, 2), "violations": violations}
    with open(os.path.join(EVID, prop + ".json"), "w") as f:
        json.dump(ev, f, indent=1, sort_keys=True)
        f.write("\n")
