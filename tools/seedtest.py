#!/usr/bin/env python3
"""seedtest.py <seed dir name> [check ids...]: run checks against a seeded change WITHOUT touching /repo.

A private copy of /repo (working tree, no _build) and of /verif (no .git, no replay files) is made under
$SEEDTEST_TMP (default /tmp/seedtest), seeded/<name>/patch.diff is applied to the copy, the copy's
tools/check.py is run with VERIF_REPO pointing at the patched copy, the verdicts are recorded in
seeded/<name>/meta.json of the real /verif, and the copies are removed.  Several seedtests may run in
parallel.  (The interface the task prescribes - `git -C /repo apply`, run the check, `git -C /repo checkout -- .`
- gives the same verdicts; this script exists so that a whole seed x check matrix can be run while other
work is using /repo.)"""
import json, os, shutil, subprocess, sys, time
VERIF = os.path.dirname(os.path.dirname(os.path.abspath(__file__)))
REPO = "/repo"
TMP = os.environ.get("SEEDTEST_TMP", "/tmp/seedtest")


def sh(cmd, **kw):
    return subprocess.run(cmd, stdout=subprocess.PIPE, stderr=subprocess.STDOUT, text=True, **kw)


def main():
    name = sys.argv[1]
    d = os.path.join(VERIF, "seeded", name)
    prop = name.split("-")[0]
    checks = sys.argv[2:] or [prop]
    work = os.path.join(TMP, name + "." + str(os.getpid()))
    crepo, cverif = os.path.join(work, "repo"), os.path.join(work, "verif")
    os.makedirs(work, exist_ok=True)
    results = {}
    how = None
    try:
        sh(["rsync", "-a", "--exclude", "_build", REPO + "/", crepo + "/"])
        sh(["rsync", "-a", "--exclude", ".git", "--exclude", "build/replay", "--exclude", "build/scratch", "--exclude", "seeded",
            VERIF + "/", cverif + "/"])
        patch = os.path.join(d, "patch.diff")
        r = sh(["git", "-C", crepo, "apply", patch])
        how = "git apply"
        if r.returncode != 0:
            r = sh(["git", "-C", crepo, "apply", "--3way", patch])
            how = "git apply --3way"
        if r.returncode != 0:
            sh(["git", "-C", crepo, "checkout", "--", "."])
            r = sh(["patch", "-p1", "--fuzz=3", "-d", crepo, "-i", patch])
            how = "patch -p1 --fuzz=3"
        if r.returncode != 0:
            print(name, "patch does not apply:", r.stdout[-300:])
            results = {"apply": "FAILED: " + r.stdout[-300:]}
        else:
            env = dict(os.environ, VERIF_REPO=crepo)
            for c in checks:
                t0 = time.time()
                rr = sh(["python3", os.path.join(cverif, "tools", "check.py"), c], cwd=cverif, env=env)
                lines = [l.replace(cverif, "/verif") for l in rr.stdout.split("\n")
                         if l.startswith("VIOLATION") or l.startswith("KNOWN-FINDING") or "OBLIGATION BROKEN" in l]
                results[c] = {"exit": rr.returncode, "lines": lines[:6], "wall_s": round(time.time() - t0, 1)}
                print(name, c, "exit", rr.returncode, lines[:3], flush=True)
    finally:
        shutil.rmtree(work, ignore_errors=True)
    meta_p = os.path.join(d, "meta.json")
    try:
        meta = json.load(open(meta_p))
    except OSError:
        meta = {"breaks_property": prop}
    if how:
        meta["applied_with"] = how
    meta.setdefault("checks", {}).update(results)
    meta["detected_by"] = sorted(c for c, v in meta["checks"].items() if isinstance(v, dict) and v.get("exit") == 1)
    meta["not_detected_by"] = sorted(c for c, v in meta["checks"].items() if isinstance(v, dict) and v.get("exit") == 0)
    json.dump(meta, open(meta_p, "w"), indent=1)
    return 0


if __name__ == "__main__":
    sys.exit(main())
