#!/usr/bin/env python3
"""seedtest.py <seed dir name> [check ids...]: apply seeded/<name>/patch.diff to /repo, run the checks
(default: the property the seed breaks), undo the patch, and record what each check said in
seeded/<name>/meta.json.  /repo must be clean before and is restored afterwards."""
import json, os, subprocess, sys, time
VERIF = os.path.dirname(os.path.dirname(os.path.abspath(__file__)))
REPO = "/repo"

def sh(cmd, **kw):
    return subprocess.run(cmd, stdout=subprocess.PIPE, stderr=subprocess.STDOUT, text=True, **kw)

def main():
    name = sys.argv[1]
    d = os.path.join(VERIF, "seeded", name)
    prop = name.split("-")[0]
    checks = sys.argv[2:] or [prop]
    if sh(["git", "-C", REPO, "status", "--porcelain", "--untracked-files=no"]).stdout.strip():
        print("/repo has uncommitted changes; refusing"); return 2
    patch = os.path.join(d, "patch.diff")
    r = sh(["git", "-C", REPO, "apply", "--3way", patch])
    how = "git apply --3way"
    if r.returncode != 0:
        sh(["git", "-C", REPO, "checkout", "--", "."])
        r = sh(["patch", "-p1", "--fuzz=3", "-d", REPO, "-i", patch])
        how = "patch -p1 --fuzz=3"
    results = {}
    try:
        if r.returncode != 0:
            print("patch does not apply:", r.stdout[-500:])
            results = {"apply": "FAILED: " + r.stdout[-300:]}
        else:
            for c in checks:
                t0 = time.time()
                rr = sh(["python3", os.path.join(VERIF, "tools", "check.py"), c], cwd=VERIF)
                lines = [l for l in rr.stdout.split("\n") if l.startswith("VIOLATION") or l.startswith("KNOWN-FINDING") or "OBLIGATION BROKEN" in l]
                results[c] = {"exit": rr.returncode, "lines": lines[:6], "wall_s": round(time.time() - t0, 1)}
                print(name, c, "exit", rr.returncode, lines[:3])
    finally:
        sh(["git", "-C", REPO, "reset", "-q", "--hard", "HEAD"])
        sh(["git", "-C", REPO, "checkout", "--", "."])
        for f in os.listdir(REPO):
            if f.endswith(".orig") or f.endswith(".rej"):
                os.unlink(os.path.join(REPO, f))
    meta_p = os.path.join(d, "meta.json")
    try:
        meta = json.load(open(meta_p))
    except OSError:
        meta = {"breaks_property": prop}
    meta.setdefault("applied_with", how)
    meta.setdefault("checks", {}).update(results)
    meta["detected_by"] = sorted(c for c, v in meta["checks"].items() if isinstance(v, dict) and v.get("exit") == 1)
    json.dump(meta, open(meta_p, "w"), indent=1)
    return 0

if __name__ == "__main__":
    sys.exit(main())
