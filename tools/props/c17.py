"""C17 tree visitor: generator for the correspondence run (model: lean/JsonC/Model/Visit.lean,
spec: lean/JsonC/Spec/Traversal.lean, harness: harness/visit.c)."""
import itertools, os, re
from common import hexs, LEAN

PROP = "C17"
HARNESS = "visit"
COMPONENT = "visit"
VARIANT = "asan"
SLICE = 300
RULE = ("one op = json_c_visit over a generated tree (all seven node types, null members, empty containers, empty and "
        "long keys, objects past the hash-table resize) with a user function scripted by call number / node / "
        "first-or-flagged call returning CONTINUE, SKIP, POP, STOP, ERROR or invalid values (100, -7, neighbours of the "
        "codes, INT_MIN/INT_MAX); plus exhaustive enumeration of all small trees with every schedule of <= 2 "
        "non-CONTINUE codes; compared call by call (node id, flags, parent id, key|index, code) and on the result; "
        "non-trivial = at least one non-CONTINUE code was actually returned; distinct = distinct op text")
ASSUMPTIONS = ["the user function does not modify the tree being visited nor *jso_index (the harness's does not)",
               "the tree is a tree: no node is reachable twice (jtree.h builds it that way)",
               "recursion depth = nesting depth; C stack exhaustion on very deep trees is outside the model"]
TRUSTED = ["harness numbering of nodes (own pre-order walk over the public iterator API)",
           "linkhash iteration order = insertion order (property C06)"]

MANIFEST = dict(
    text="Lean 4 theorems over a statement-by-statement model of json_visit.c (json_c_visit, _json_c_visit and its member/element "
         "loops; the user function is an arbitrary state-passing function returning any integer): for every tree, every user "
         "function and every initial state the model's result and final user state - hence the recorded sequence of calls "
         "(node, flags, parent, key|index, code returned) - equal those of an independently written reference traversal (the tree "
         "flattened to its arrival/departure events in depth-first document order, folded through a five-rule skipping machine) "
         "(visit_eq_reference); named consequences: calls are always a sublist of the document-order event list and all of it when "
         "the callback continues, arrivals are the pre-order nodes labelled 0..n-1 with sound parent and key/index, containers get "
         "their flagged second call after their children, skip omits the children (and the second call) and resumes with the next "
         "sibling, pop abandons the remaining siblings and resumes at the parent's second call (success at the root), stop / error / "
         "any invalid code on any call is the last call and gives 0 / -1 / -1, the result is 0 iff no call returned error or an "
         "invalid code, skip/pop on a flagged call act as continue. The five codes are regenerated from json_visit.h on every run and "
         "proved pairwise distinct. The model is tied to the code by a differential run of model, spec and the ASan/UBSan-built "
         "implementation on generated trees and return-code schedules, including exhaustive small scopes.",
    note="Trusted: Lean kernel + propext/Classical.choice/Quot.sound; tools/extract; the differential harness (its own node numbering); "
         "callbacks that leave the tree and *jso_index alone. The model is hand-written: theorems are about the model, the "
         "correspondence run is testing.",
    technique="Lean 4 proof (refinement of a reference machine by mutual structural induction over the tree) + "
              "model/implementation correspondence run",
    design="6/C17")

DEFECTS = []

INT_MAX = 2147483647


def codes():
    """the five codes as currently generated from json_visit.h (falls back to the upstream values)"""
    d = dict(visitContinue=0, visitSkip=7547, visitPop=767, visitStop=7867, visitError=-1)
    try:
        txt = open(os.path.join(LEAN, "JsonC", "Generated", "Consts.lean")).read()
        for k in d:
            m = re.search(r"def %s : Int := (-?\d+)" % k, txt)
            if m:
                d[k] = int(m.group(1))
    except OSError:
        pass
    return d


# ----------------------------------------------------------------------------- trees
class T:
    """kind: 'leaf' (text), 'arr' (kids), 'obj' (keys, kids)"""
    def __init__(self, kind, text=None, kids=None, keys=None):
        self.kind, self.text, self.kids, self.keys = kind, text, kids or [], keys or []

    def dump(self):
        if self.kind == "leaf":
            return self.text
        if self.kind == "arr":
            return "[" + ",".join(k.dump() for k in self.kids) + "]"
        return "{" + ",".join("%s:%s" % (hexs(key), k.dump()) for key, k in zip(self.keys, self.kids)) + "}"

    def nodes(self):
        return 1 + sum(k.nodes() for k in self.kids)

    def containers(self):
        return (0 if self.kind == "leaf" else 1) + sum(k.containers() for k in self.kids)


def rand_leaf(rng):
    k = rng.randrange(9)
    if k == 0:
        return "n"
    if k == 1:
        return rng.choice(["t", "f"])
    if k == 2:
        return "i%d" % rng.choice([0, 1, -1, 42, 2 ** 63 - 1, -2 ** 63, rng.randrange(-1000, 1000)])
    if k == 3:
        return "u%d" % rng.choice([0, 2 ** 64 - 1, 2 ** 63, rng.randrange(0, 1000)])
    if k == 4:
        return "d%016x" % rng.choice([0, 0x3ff0000000000000, 0x7ff8000000000000, 0xfff0000000000000, rng.getrandbits(64)])
    if k == 5:
        return "d%016x:%s" % (0x3ff8000000000000, hexs(b"1.50"))
    if k == 6:
        return "s" + hexs(rng.rbytes(rng.choice([0, 1, 3, 8])))
    if k == 7:
        return "n"
    return "s" + hexs(b"x\x00y")


def rand_key(rng, used):
    for _ in range(50):
        n = rng.choice([0, 1, 1, 1, 2, 3, 12])
        k = bytes(rng.choice([97, 98, 99, 0x20, 0x2f, 0x7e, 0xc3, 0xff, 1]) for _ in range(n))
        if k not in used:
            used.add(k)
            return k
    k = ("k%d" % len(used)).encode()
    used.add(k)
    return k


def rand_tree(rng, depth, budget):
    """budget = max number of nodes; returns T"""
    if depth == 0 or budget <= 1 or rng.chance(0.3):
        if rng.chance(0.25):
            return T(rng.choice(["arr", "obj"]))       # empty container
        return T("leaf", rand_leaf(rng))
    kind = rng.choice(["arr", "obj"])
    fan = rng.choice([1, 1, 2, 2, 3, 3, 4, 5])
    if rng.chance(0.03):
        fan = rng.choice([17, 20, 33])               # past JSON_OBJECT_DEF_HASH_ENTRIES / ARRAY_LIST_DEFAULT_SIZE
    kids, keys, used = [], [], set()
    left = budget - 1
    for i in range(fan):
        if left <= 0:
            break
        share = max(1, left // (fan - i)) if fan > 5 else max(1, rng.randrange(1, left + 1))
        k = rand_tree(rng, depth - 1, share if fan <= 5 else 1)
        left -= k.nodes()
        kids.append(k)
        keys.append(rand_key(rng, used))
    return T(kind, kids=kids, keys=keys if kind == "obj" else [])


def small_trees(n):
    """all trees with exactly n nodes over: scalar | array | object (keys a, b, c ... by position)"""
    if n == 1:
        return [T("leaf", "t"), T("arr"), T("obj")]
    res = []
    for parts in compositions(n - 1):
        for kids in itertools.product(*[small_trees(p) for p in parts]):
            res.append(T("arr", kids=list(kids)))
            res.append(T("obj", kids=list(kids), keys=[bytes([97 + i]) for i in range(len(kids))]))
    return res


def compositions(n):
    if n == 0:
        return [[]]
    res = []
    for first in range(1, n + 1):
        for rest in compositions(n - first):
            res.append([first] + rest)
    return res


def parse_demo():
    """{"a":[1,[2,3],{"x":null,"y":[]}],"b":{"c":{},"d":4},"e":5} (the document of seeded/C17-*)"""
    L = lambda s: T("leaf", s)
    return T("obj", keys=[b"a", b"b", b"e"], kids=[
        T("arr", kids=[L("i1"), T("arr", kids=[L("i2"), L("i3")]),
                       T("obj", keys=[b"x", b"y"], kids=[L("n"), T("arr")])]),
        T("obj", keys=[b"c", b"d"], kids=[T("obj"), L("i4")]),
        L("i5")])


# ----------------------------------------------------------------------------- schedules
def code_pool(c):
    valid = [c["visitSkip"], c["visitPop"], c["visitStop"], c["visitError"]]
    invalid = [100, -7, 1, 2, 3, -2, INT_MAX, -INT_MAX - 1]
    for v in valid + [c["visitContinue"]]:
        invalid += [v - 1, v + 1]
        # a valid code in the low bits of a wider value is not that code (round-8 seed C17-13: return values masked)
        if v >= 0:
            invalid += [v + (1 << k) for k in (13, 15, 16, 17, 24, 30)] + [v | 0x7fff0000]
        if v > 0:
            invalid += [-v]
    invalid = [x for x in invalid if x not in valid and x != c["visitContinue"] and -INT_MAX - 1 <= x <= INT_MAX]
    return valid, sorted(set(invalid))


def rand_code(rng, valid, invalid):
    r = rng.random()
    if r < 0.72:
        return rng.choice(valid)
    if r < 0.77:
        return 0
    return rng.choice(invalid)


def rand_schedule(rng, t, valid, invalid):
    calls = t.nodes() + t.containers()
    rules = []
    for _ in range(rng.choice([0, 1, 1, 2, 2, 3, 4])):
        rules.append("%d:%d" % (rng.randrange(1, calls + 1), rand_code(rng, valid, invalid)))
    for _ in range(rng.choice([0, 0, 0, 1, 2])):
        rules.append("%s%d:%d" % (rng.choice("nm"), rng.randrange(0, t.nodes()), rand_code(rng, valid, invalid)))
    if rng.chance(0.12):
        rules.append("F:%d" % rand_code(rng, valid, invalid))
    if rng.chance(0.15):
        rules.append("S:%d" % rand_code(rng, valid, invalid))
    rng.shuffle(rules)
    return ",".join(rules) if rules else "-"


def sweep(t, codes1, codes2):
    """every schedule by call number with one code from codes1, or two codes from codes2"""
    calls = t.nodes() + t.containers()
    for k in range(1, calls + 1):
        for c in codes1:
            yield "%d:%d" % (k, c)
    for k1 in range(1, calls + 1):
        for k2 in range(k1 + 1, calls + 1):
            for c1 in codes2:
                for c2 in codes2:
                    yield "%d:%d,%d:%d" % (k1, c1, k2, c2)


def chunks(tree_text, scheds, size=25):
    cur = []
    for s in scheds:
        cur.append("visit %s %s" % (tree_text, s))
        if len(cur) >= size:
            yield {"lines": cur}
            cur = []
    if cur:
        yield {"lines": cur}


def gen(rng, tier):
    c = codes()
    valid, invalid = code_pool(c)
    six = valid + [100, -7]
    demo = parse_demo()
    # exhaustive small scopes first, so that the first divergence reported is a small one
    if tier == "quick":
        for n in (1, 2, 3):
            for t in small_trees(n):
                yield from chunks(t.dump(), sweep(t, six, six if n < 3 else [c["visitSkip"], c["visitPop"], 100]))
        for t in small_trees(4):
            yield from chunks(t.dump(), sweep(t, six, []))
    else:
        for n in (1, 2, 3, 4):
            for t in small_trees(n):
                yield from chunks(t.dump(), sweep(t, six + [2], six))
        for t in small_trees(5):
            yield from chunks(t.dump(), sweep(t, six, [c["visitSkip"], c["visitPop"], 100]))
    # deleting the member being visited: first, middle, last member; nested
    del_t = "{61:i1,62:[i2,i3],63:{64:i4,65:i5},66:n}"
    yield {"lines": ["visitdel %s n1:%d" % (del_t, c["visitSkip"]), "visitdel %s n2:%d" % (del_t, c["visitSkip"]),
                     "visitdel %s n5:%d" % (del_t, c["visitSkip"]), "visitdel %s n6:%d,n7:%d" % (del_t, c["visitSkip"], c["visitSkip"]),
                     "visitdel %s n9:%d" % (del_t, c["visitSkip"]), "visitdel %s n1:%d,n2:%d,n5:%d,n9:%d" % ((del_t,) + (c["visitSkip"],) * 4)]}
    # the documented example / the seeded-defect document: every single deviation (thorough: every pair too)
    yield from chunks(demo.dump(), itertools.chain(["-"], sweep(demo, six + [2], [])))
    if tier != "quick":
        yield from chunks(demo.dump(), sweep(demo, [], six))
    # deep chains: the traversal has no depth limit of its own (arrays, objects, mixed; the leaf and the second
    # visits of every open container must all be reported)
    for d in ((1030, 1500, 2500) if tier == "quick" else (1023, 1024, 1025, 1026, 2000, 4096, 6000)):
        chain_a = "[" * d + "i1" + "]" * d
        chain_m = "".join("[" if i % 2 == 0 else "{61:" for i in range(d)) + "n" + "".join("]" if i % 2 == 0 else "}" for i in reversed(range(d)))
        yield {"lines": ["visit %s -" % chain_a, "visit %s -" % chain_m], "noshrink": True}
    # random trees x random schedules
    ntrees = 3000 if tier == "quick" else 20000
    for i in range(ntrees):
        t = rand_tree(rng, rng.choice([1, 2, 3, 3, 4, 5]), rng.choice([3, 6, 10, 16, 30, 60]))
        txt = t.dump()
        lines = []
        for j in range(rng.choice([3, 4, 5])):
            ff = "" if rng.chance(0.8) else " %d" % rng.choice([0, 1, 2, -1, INT_MAX])
            lines.append("visit %s %s%s" % (txt, rand_schedule(rng, t, valid, invalid), ff))
        if rng.chance(0.35) and t.nodes() > 1:
            # the callback deletes the member it is called for (and skips it): allowed while iterating, and the walk of
            # the remaining members goes on as if the member had merely been skipped
            rules = ["n%d:%d" % (rng.randrange(1, t.nodes()), c["visitSkip"]) for _ in range(rng.choice([1, 2, 3, 5]))]
            if rng.chance(0.3):
                rules.append("%d:%d" % (rng.randrange(1, t.nodes() + t.containers() + 1), rand_code(rng, valid, invalid)))
            lines.append("visitdel %s %s" % (txt, ",".join(rules)))
        yield {"lines": lines}
