"""C08 allocation failure: generator + verdicts for the fault-enumeration / correspondence run
(model: lean/JsonC/Model/Alloc.lean, theorems: lean/JsonC/Props/C08.lean, harness: harness/alloc.c).

A case = one workload; its lines are `<workload> <args..> <k1> <k2>` for k1 = 0 (fault-free), 1 .. N
(N = allocator calls of the fault-free run, asked from the harness with `count ..`) and N+1 (beyond the
last call), plus sampled pairs (k1, k2) in the thorough tier.  For the workloads the Lean model covers the
driver predicts the whole line (result, allocator calls made, request trace, errno class): correspondence.
For the others (parse, patch, construct, ptrsetf) the driver prints `*` and the harness's own oracle, which
is evaluated on every line of every workload, decides."""
import json, os, struct
import common as C

PROP = "C08"
HARNESS = "alloc"
COMPONENT = "alloc"
VARIANT = "asan"
WRAPS = ["malloc", "calloc", "realloc", "free", "strdup", "vasprintf"]
SLICE = 200
NONTRIVIAL_MIN_TAGS = 3
TIMEOUT = 1200
RULE = ("fault enumeration: every workload of the corpus (parse of documents with nested containers / escapes / doubles / "
        "> 32-element arrays / > 11-member objects through json_tokener_parse_verbose, json_tokener_parse_ex one-shot and split in "
        "two calls; construct; array add / put_idx / insert_idx / shrink at the capacity boundaries; object add (new key, replace, "
        "KEY_IS_NEW, CONSTANT_KEY) at the load-factor boundaries; set_string growing / shrinking / emptying from inline and from "
        "external storage; deep copy; serialization under PLAIN / SPACED / PRETTY / PRETTY_TAB / NOSLASHESCAPE / COLOR; "
        "json_pointer_set / setf; json_patch_apply in both calling conventions; printbuf / array_list / lh_table / tokener "
        "constructors; plus seeded random trees / documents, far more in the thorough tier) is run fault-free to count its N allocator calls, then once per k = 1..N with exactly the k-th call failing, "
        "once with k = N+1, and (thorough) with sampled pairs k1 < k2; one evaluation = one (workload, fault) line; non-trivial = a "
        "fault was injected inside the window (coverage tags workload + fault + outcome); distinct = distinct line text")
ASSUMPTIONS = [
    "only the allocator calls the library itself makes are failed (malloc, calloc, realloc, strdup, vasprintf, interposed with "
    "-Wl,--wrap); allocations inside libc (duplocale / newlocale in json_tokener_parse_ex, stdio) always succeed",
    "a failing call returns NULL / -1 with errno = ENOMEM and has no other effect (realloc leaves the old block valid)",
    "trees are unshared (every reference count is 1) and have not been serialised before (no cached _pb) when an operation of the "
    "Lean model is applied to them; the harness builds exactly such trees",
    "json_patch_apply may leave *base half-patched when it fails (documented: modified in place); the check demands only that it stays a "
    "valid tree, that the patch and copy_from are unchanged and that nothing leaks",
    "a parse that fails under a fault may report any error status other than success / continue together with NULL "
    "(json_tokener_parse_ex overwrites json_tokener_error_memory with parse_eof when the fault hits at the terminating NUL)",
]
TRUSTED = ["harness/alloc.c: the interposed allocator, its block tracking and the before/after dumps (harness/jtree.h)",
           "ASan/UBSan/LeakSanitizer for the no-crash / no-invalid-free clause",
           "whole-workload coverage (parse, serialize of a given tree, patch, construct) is fault ENUMERATION over the corpus, not proof"]

# Genuine deviation recorded rather than repaired (not a small fix: every append in every emitter is unchecked).
KNOWN = [
    dict(property="C08", id="C08-serializer-unchecked-append", tag="ser.unchecked-append",
         site="json_object.c: json_object_*_to_json_string / json_escape_str / indent ignore the return value of printbuf_memappend, "
              "printbuf_strappend, printbuf_memset, sprintbuf (only the emitter's last append is returned)",
         witness="ser [i1,s6162%s] 0 3 0   (json_object_to_json_string_ext of [1,\"ab%s\"], JSON_C_TO_STRING_PLAIN, with the 3rd "
                 "allocator call = the first printbuf_extend realloc failing: returns the text [1,\"\"] instead of NULL)" % ("61" * 31, "a" * 31),
         description="when a printbuf_extend realloc fails while a value is being serialised the failed append is dropped and the "
                     "serializer carries on: json_object_to_json_string_ext returns a text with a piece missing (possibly still valid "
                     "JSON denoting another value) instead of NULL"),
]
DEFECTS = [
    dict(tag="tok.oom.child-leak", input="parse v 0 0 <{\"a\":[1,2,{\"b\":\"x\"}],\"c\":{\"d\":[true]}}> k=19,21,32,33 of 33",
         observed="NULL / json_tokener_error_memory, but 1 / 10 / 4 / 8 blocks leaked (the completed child in the local `obj`)",
         expected="no live block left", suggested_fix="json_object_put(obj) in states array_add / object_value_add when the attach fails",
         status="fixed in /repo 0b77e7e by the main session"),
    dict(tag="obj.add.key-leak-on-resize-fail", input="oadd 11 6b3131 0 k=2 or 3 (12th member, lh_table_resize cannot allocate)",
         observed="rc=-1, the strdup'ed key leaked", expected="no live block left",
         suggested_fix="free the key copy when lh_table_insert_w_hash fails", status="fixed in /repo 55cbb3f by the main session"),
] + [dict(tag=k["tag"], input=k["witness"], observed=k["description"], expected="NULL (no text) or the complete text",
          suggested_fix="none small (every append of every emitter needs its result checked); recorded as known finding " + k["id"])
     for k in KNOWN]


MANIFEST = dict(
   text="PARTIAL BY NATURE. Proved (Lean 4, for EVERY allocator oracle, hence for every single and double fault): over an allocation model of "
        "json-c (state = allocator calls made, live blocks (id, size), errno; Model/Alloc.lean transcribes the C at HEAD) the functions "
        "printbuf_new / printbuf_extend / printbuf_memappend, array_list_new2 / expand_internal / shrink / add / put_idx, lh_table_new / "
        "lh_table_resize (as lh_table_insert_w_hash calls it) / lh_table_insert_w_hash, json_object_new_boolean|int|double / new_string_len / "
        "new_double_s / new_array_ext / new_object, json_object_array_add / array_put_idx / object_add_ex (new key, replace, KEY_IS_NEW, "
        "CONSTANT_KEY), _json_object_set_string_len, json_tokener_new_ex, json_object_put of an unshared tree, json_object_deep_copy (with its "
        "unwinding at every level), json_pointer_set_single_path and json_pointer_set (failure part), and the tokener's array_add / "
        "object_value_add attach step never fault (no free of a dead block, no integer overflow) and end either in the normal result with the live "
        "set = old live set plus exactly the blocks the result owns (minus what the call is documented to release) or in the documented failure "
        "value with the caller's objects unchanged and the live set EXACTLY as before; a failure implies that a call of the window was refused "
        "(or an argument-range refusal that allocates nothing), so a fault-free run succeeds. NOT proved, checked by FAULT ENUMERATION over a "
        "corpus (this is testing, not proof): whole workloads - parse (json_tokener_parse_verbose / parse_ex, one-shot and split), construct, "
        "serialize under 8 flag sets, json_patch_apply, json_pointer_setf - are run once to count their N allocator calls and N+1 more times "
        "with the k-th call failing (k = 1..N+1; sampled pairs in the thorough tier) under ASan/UBSan with an interposed allocator, checking "
        "the failure channel or the fault-free result, live-block delta 0 after cleanup, before/after dumps of caller-owned trees, and "
        "serialized text = none or the fault-free text. For the modelled functions the same runs are the correspondence check: the Lean driver "
        "must predict result, number of calls, errno class and the allocator request trace (kind, size, block freed) of every line.",
   note="Known finding C08-serializer-unchecked-append (the emitters ignore failed appends: truncated text instead of NULL) is modelled "
        "byte for byte (Model/AllocSer.lean; serialize_truncates is the decide-checked counter-example, serialize_complete_partial proves "
        "that without a dropped append the call returns NULL or the complete text, for every value / flag set / oracle) and excluded by tag; "
        "any other leak / crash / wrong result in a serialization workload - and any truncation the model does not predict byte for byte - "
        "is still a violation. Trusted: Lean kernel + propext/Classical.choice/Quot.sound; the hand-written model (tied "
        "to the code by 11 shape facts regenerated from the source by tools/extract/st_alloc.py, 11 sizeof constants, and the per-call request "
        "traces of the correspondence run); harness/alloc.c (allocator interposition, block tracking, dumps); ASan/UBSan/LSan. Assumed: "
        "only the library's own allocator calls fail (not libc-internal ones such as newlocale in json_tokener_parse_ex); a failing call "
        "has no side effect; trees are unshared and not serialised before; deep copy sources have < 2^26 children per container and distinct "
        "member names; json_patch_apply may leave *base half-patched on failure (documented). json_pointer_set is proved for the failure side "
        "only (pointerSetStatement records the full statement). Defects found and fixed in /repo through this check: 0b77e7e (parser leaked the "
        "completed child when the attach failed), 55cbb3f (object_add_ex leaked its key copy when the resize failed).",
   technique="Lean 4 proof (weakest-precondition calculus over an allocation monad, ownership accounting by induction over trees) for the "
             "modelled allocation sites + fault enumeration / model-implementation correspondence run over whole workloads",
   design="6/C08")

# --------------------------------------------------------------------------- values (dump format of harness/jtree.h)


def hx(b):
    return b.hex() if b else "-"


def dbl(x, text=None):
    return ("d", struct.unpack(">Q", struct.pack(">d", x))[0], text)


def dump(v):
    if v is None:
        return "n"
    if v is True:
        return "t"
    if v is False:
        return "f"
    if isinstance(v, bytes):
        return "s" + hx(v)
    if isinstance(v, tuple):
        if v[0] in ("i", "u"):
            return "%s%d" % (v[0], v[1])
        return "d%016x" % v[1] + ((":" + hx(v[2])) if v[2] is not None else "")
    if isinstance(v, list):
        return "[" + ",".join(dump(x) for x in v) + "]"
    return "{" + ",".join(hx(k) + ":" + dump(x) for k, x in v.items()) + "}"


def I(n):
    return ("i", n)


def to_json(v):
    """JSON text of a value (for the parse workloads)"""
    if v is None:
        return b"null"
    if v is True:
        return b"true"
    if v is False:
        return b"false"
    if isinstance(v, bytes):
        out = b'"'
        for c in v:
            if c == 0x22:
                out += b'\\"'
            elif c == 0x5c:
                out += b"\\\\"
            elif c == 0x0a:
                out += b"\\n"
            elif c < 0x20:
                out += b"\\u%04x" % c
            else:
                out += bytes([c])
        return out + b'"'
    if isinstance(v, tuple):
        if v[0] in ("i", "u"):
            return b"%d" % v[1]
        return v[2] if v[2] is not None else repr(struct.unpack(">d", struct.pack(">Q", v[1]))[0]).encode()
    if isinstance(v, list):
        return b"[" + b",".join(to_json(x) for x in v) + b"]"
    return b"{" + b",".join(to_json(k) + b":" + to_json(x) for k, x in v.items()) + b"}"


def rand_val(rng, depth, plain_double=False, wide=False):
    k = rng.randrange(10)
    if depth <= 0 or k < 4:
        s = rng.randrange(9)
        if s == 0:
            return None
        if s == 1:
            return rng.choice([True, False])
        if s <= 3:
            return I(rng.choice([0, 1, -1, 42, 123456789012, -(1 << 63), (1 << 63) - 1]))
        if s == 4:
            return dbl(1.5, b"1.5") if not plain_double or rng.chance(0.5) else dbl(rng.choice([0.5, 1e10, -2.25]))
        if s == 5:
            return dbl(3.0, rng.choice([b"3.0", b"3e0", b"0.30000000000000004e1"]))
        return rng.choice([b"", b"x", b"foo", b"a/b", b"q\"\\", b"line\nfeed\ttab", b"\x01\x1f", b"y" * 40, b"z" * 130,
                           "é€".encode()])
    if k < 7:
        n = rng.choice([0, 1, 2, 3, 5] + ([33, 40] if wide else []))
        return [rand_val(rng, depth - 1, plain_double) for _ in range(n)]
    n = rng.choice([0, 1, 2, 3, 4] + ([12, 23] if wide else []))
    return {b"k%d" % i if i % 3 else b"key/%d" % i: rand_val(rng, depth - 1, plain_double) for i in range(n)}


# --------------------------------------------------------------------------- corpus
SETS = [(a, b, c) for a in (0, 3, 7, 8, 20) for b in (-1, 0, 12, 30) for c in (0, 1, 7, 8, 9, 21, 31, 60)
        if (a * 7 + (b + 1) * 3 + c) % 3 != 1 or c in (0, 9)]

TREES = [
    None if False else I(7),
    b"hello",
    dbl(1.5, b"1.5"),
    [],
    {},
    [I(1), b"ab", dbl(1.5, b"1.5")],
    {b"a": [I(1), b"ab", dbl(1.5, b"1.5")], b"b": {b"c": None}},
    {b"a": {b"b": {b"c": [True, False, None, [[], {}]]}}},
    [I(i) for i in range(33)],
    [[I(i) for i in range(40)], {b"k%d" % i: b"v" * i for i in range(13)}],
    {b"k%d" % i: I(i) for i in range(12)},
    {b"k%d" % i: [I(i)] for i in range(24)},
    [b"x" * 100, dbl(2.5), dbl(0.1, b"0.1" + b"0" * 40)],
]

DOCS = [
    b"null", b"true", b"12", b"-1.5e3", b'"abc"', b"[]", b"{}", b" [ 1 , 2 ] ",
    b'{"a":[1,2,{"b":"x"}],"c":{"d":[true]}}',
    b'{"a":1,"a":2}',
    b'["\\u00e9\\ud83d\\ude00\\n\\t\\"\\\\/","' + b"s" * 70 + b'"]',
    b"[1.5,2e10,-0.0,1E-2,12345678901234567890,-9223372036854775808]",
    b"[" + b",".join(b"%d" % i for i in range(33)) + b"]",
    b"[" + b",".join(b"[%d]" % i for i in range(33)) + b"]",
    b"{" + b",".join(b'"k%d":%d' % (i, i) for i in range(12)) + b"}",
    b"{" + b",".join(b'"k%d":{"x":[%d]}' % (i, i) for i in range(23)) + b"}",
    b'[[[[[[[[1]]]]]]]]',
    b'{"' + b"k" * 50 + b'":"' + b"v" * 200 + b'"}',
    b"[NaN,Infinity,-Infinity]",
    b"/* c */ [1, // x\n 2]",
    b'{"a":[1,2',          # incomplete
    b'{"a":tru}',          # malformed
    b"[1,2]  x",
] + [
    # an escape / a \\u escape / a plain byte landing exactly where the token buffer has to grow (32, then 64 bytes),
    # in a value and in a member name: the single byte appended there must be checked like every other append
    (b'["' + b"a" * n + esc + b'b"]') for n in (29, 30, 31, 32, 61, 62, 63) for esc in (b"\\n", b"\\t", b"\\u00e9", b"\\\\")
] + [
    (b'{"' + b"k" * n + b'\\r":1}') for n in (30, 31, 32)
]

SER_FLAGS = [0, 1, 2, 2 | 8, 16, 1 | 2, 32 | 2, 1 | 16]
SER_TREES = [
    I(1), b"ab", [I(1), b"ab" + b"a" * 31], [], {}, None,
    {b"a": [I(1), b"q\"\\/\n\x01", dbl(1.5, b"1.5")], b"b/c": {b"c": None}, b"t": True},
    [I(i * 1000003) for i in range(12)],
    {b"k%d" % i: b"v" * (i * 3) for i in range(9)},
    [[[[I(1), [I(2), [I(3)]]]]], {b"x": {b"y": {b"z": [False]}}}],
    [b"/" * 40, b"\x02" * 12],
]


def pop(op, path, value=None, frm=None):
    d = {b"op": op}
    if frm is not None:
        d[b"from"] = frm
    d[b"path"] = path
    if value is not None or op in (b"add", b"replace", b"test"):
        d[b"value"] = value
    return d


PATCHES = [
    ({b"a": I(1)}, [pop(b"add", b"/b", I(2))]),
    ({b"a": I(1)}, [pop(b"add", b"/b", {b"x": [I(1), I(2)]}), pop(b"copy", b"/c", frm=b"/b"), pop(b"move", b"/d", frm=b"/a")]),
    ([I(1), I(2), I(3)], [pop(b"add", b"/1", b"x"), pop(b"remove", b"/0"), pop(b"replace", b"/0", [I(9)]), pop(b"test", b"/0", [I(9)])]),
    ({b"k%d" % i: I(i) for i in range(11)}, [pop(b"add", b"/new", b"v"), pop(b"move", b"/z", frm=b"/k3")]),
    ([I(i) for i in range(32)], [pop(b"add", b"/-", I(32)), pop(b"copy", b"/0", frm=b"/5")]),
    ({b"a": {b"b": [I(1)]}}, [pop(b"test", b"/a/b/0", I(2)), pop(b"add", b"/q", I(1))]),       # fails at op 0 anyway
    ({b"a": {b"b": [I(1)]}}, [pop(b"add", b"/a/b/-", {b"deep": [b"x" * 50]}), pop(b"remove", b"/a")]),
    ({b"a": I(1)}, [pop(b"replace", b"", [I(1)]), pop(b"add", b"/-", b"tail")]),
]

PTRSETS = [
    ({b"a": [I(1)]}, b"", I(5)),
    ({b"a": [I(1)]}, b"/b", I(5)),
    ({b"a": [I(1)]}, b"/a", [b"new"]),
    ({b"a": [I(1)]}, b"/a/-", I(5)),
    ({b"a": [I(1)]}, b"/a/0", b"repl"),
    ({b"a": [I(1)]}, b"/a/3", I(5)),
    ({b"a": [I(1)]}, b"/a/40", I(5)),
    ({b"a": [I(1)]}, b"/a/01", I(5)),
    ({b"a": [I(1)]}, b"/x/y", I(5)),
    ({b"a": [I(1)]}, b"a", I(5)),
    ({b"a": {b"b": {b"c": I(1)}}}, b"/a/b/c", [I(1), I(2)]),
    ({b"a": {b"b": {b"c": I(1)}}}, b"/a/b/d~1e~0", b"esc"),
    ({b"a": I(1)}, b"/a/b", I(5)),
    ([I(i) for i in range(32)], b"/-", b"grow"),
    ([I(i) for i in range(32)], b"/32", b"grow"),
    ([[I(i) for i in range(32)]], b"/0/-", b"grow"),
    ({b"k%d" % i: I(i) for i in range(11)}, b"/k11", b"resize"),
    ({b"o": {b"k%d" % i: I(i) for i in range(11)}}, b"/o/k11", {b"v": [I(1)]}),
    ({b"o": {b"k%d" % i: I(i) for i in range(11)}}, b"/o/k5", {b"v": [I(1)]}),
    (I(3), b"/a", I(5)),
]


def modelled_workloads(rng, tier):
    w = ["pbnew"]
    w += ["pbapp %d %d" % p for p in [(0, 30), (0, 31), (0, 32), (10, 20), (10, 21), (10, 30), (31, 0), (31, 1), (0, 200), (40, 100), (20, 2000)]]
    w += ["alnew %d" % n for n in (0, 1, 32, 1000, -1)]
    w += ["aadd %d" % n for n in (0, 1, 31, 32, 33, 63, 64, 65, 100, 128)]
    w += ["aput %d %d" % p for p in [(3, 40), (3, 2), (3, 3), (32, 32), (0, 31), (0, 32), (5, 500), (64, 64), (31, 31)]]
    w += ["ains %d %d" % p for p in [(32, 1), (31, 0), (32, 40), (64, 64), (64, 3), (33, 32), (0, 0)]]
    w += ["ashrink %d %d" % p for p in [(5, 0), (32, 0), (33, 0), (0, 0), (5, 40), (40, 30), (31, 1), (5, 27)]]
    w += ["lhnew %d" % n for n in (1, 16, 1000)]
    w += ["lhresize %d %d %d" % p for p in [(16, 5, 32), (16, 0, 4), (16, 10, 64), (16, 5, 16), (16, 3, 8), (32, 20, 64),
                                            # a requested size smaller than the contents need: the table being filled grows itself
                                            # on the way (nested resize), and that may fail too (round-7 seed C08-12)
                                            (16, 10, 4), (16, 9, 2), (32, 20, 8)]]
    w += ["lhins %d %d" % p for p in [(16, 10), (16, 11), (16, 5), (1, 0), (1, 1), (2, 1), (2, 2), (4, 2), (4, 3), (32, 21), (32, 22), (50, 32), (50, 33)]]
    w += ["new o 0", "new b 0", "new i 0", "new f 0"] + ["new a %d" % n for n in (0, 1, 32, -1)]
    w += ["new s %d" % n for n in (0, 1, 7, 8, 9, 100)] + ["new d %d" % n for n in (0, 5, 30)]
    for n in (0, 5, 10, 11, 12, 21, 22, 43):
        w += ["oadd %d %s %d" % (n, hx(b"kx"), o) for o in (0, 2, 4, 6)]
        if n:
            w += ["oadd %d %s %d" % (n, hx(b"k0"), o) for o in (0, 4)]
    w += ["sets %d %d %d" % t for t in SETS]
    w += ["toknew %d" % n for n in (0, 1, 32, 1000)]
    w += ["copy " + dump(t) for t in TREES]
    w += ["ptrset %s %s %s" % (dump(t), hx(p), dump(v)) for t, p, v in PTRSETS]
    for _ in range(25 if tier == "quick" else 500):
        w.append("copy " + dump(rand_val(rng, 3, plain_double=True, wide=rng.chance(0.3))))
        t, p, v = rng.choice(PTRSETS)
        w.append("ptrset %s %s %s" % (dump(t), hx(p), dump(rand_val(rng, 2))))
    if tier == "thorough":
        for _ in range(40):
            w.append("aadd %d" % rng.randrange(0, 300))
            w.append("oadd %d %s %d" % (rng.randrange(0, 200), hx(rng.choice([b"kx", b"k1", b"k7"])), rng.choice([0, 0, 4])))
            w.append("lhins %d %d" % (rng.choice([1, 2, 3, 5, 16, 50, 100]), rng.randrange(0, 60)))
    return w


def other_workloads(rng, tier):
    w = []
    # arrays whose capacity equals their length (every parsed array): replacing the last element, appending, inserting
    w += ["asput %d %d" % p for p in [(3, 2), (3, 3), (1, 0), (32, 31), (32, 32), (5, 4), (5, 2), (40, 39), (40, 100)]]
    w += ["asins %d %d" % p for p in [(3, 0), (3, 3), (32, 5), (1, 0), (40, 39)]]
    # sprintbuf: short output (stack buffer) and long output (heap), into buffers that have to grow or not
    w += ["pbspr %d %d" % p for p in [(0, 5), (0, 31), (0, 32), (20, 20), (30, 1), (0, 127), (0, 128), (0, 200), (100, 300), (31, 0)]]
    for d in DOCS:
        w.append("parse v 0 0 " + hx(d))
    for d in DOCS[8:18]:
        w.append("parse e 1 0 " + hx(d))
        w.append("parse s 0 %d %s" % (max(1, len(d) // 2), hx(d)))
    for t in SER_TREES:
        for f in (SER_FLAGS if tier == "thorough" else SER_FLAGS[:1] + [SER_FLAGS[(len(dump(t)) % (len(SER_FLAGS) - 1)) + 1], 2]):
            w.append("ser %s %d" % (dump(t), f))
    for doc, ops in PATCHES:
        for mode in ("base", "copy"):
            w.append("patch %s %s %s" % (mode, dump(doc), dump(ops)))
    for t in TREES[3:]:
        w.append("construct " + dump(t))
    for t, p, v in PTRSETS[:8]:
        w.append("ptrsetf %s %s %s" % (dump(t), hx(p), dump(v)))
    for _ in range(20 if tier == "quick" else 0):
        w.append("parse %s 0 0 %s" % (rng.choice("ve"), hx(to_json(rand_val(rng, 3, wide=rng.chance(0.2))))))
        d = to_json(rand_val(rng, 2))
        w.append("parse s 0 %d %s" % (rng.randrange(0, len(d) + 1), hx(d)))
        w.append("construct " + dump(rand_val(rng, 3, plain_double=True)))
        w.append("ser %s %d" % (dump(rand_val(rng, 3)), rng.choice(SER_FLAGS)))
    if tier == "thorough":
        for _ in range(800):
            v = rand_val(rng, 3, wide=rng.chance(0.3))
            w.append("parse %s 0 0 %s" % (rng.choice("ve"), hx(to_json(v))))
            d = to_json(rand_val(rng, 3))
            w.append("parse s 0 %d %s" % (rng.randrange(0, len(d) + 1), hx(d)))
            w.append("construct " + dump(rand_val(rng, 3, plain_double=True)))
            w.append("ser %s %d" % (dump(rand_val(rng, 3)), rng.choice(SER_FLAGS)))
    return w


_harness = None


def _counts(workloads):
    """N of every workload, from the harness's own fault-free run"""
    global _harness
    if _harness is None:
        _harness = C.build_harness(HARNESS, VARIANT, (), WRAPS)
    res = {}
    todo = list(workloads)
    while todo:
        out, err, rc = C.run_lines([_harness], ["count " + w for w in todo], timeout=600)
        for w, l in zip(todo, out):
            if l.strip().isdigit():
                res[w] = int(l)
        if rc == 0 or len(out) >= len(todo):
            break
        # the harness died on line len(out): that workload is enumerated blindly, the rest is retried
        bad = todo[len(out)] if len(out) < len(todo) else None
        if bad is not None:
            res[bad] = 40
        todo = todo[len(out) + 1:]
    return res


_stats = {"workloads": 0, "lines": 0, "faults": 0, "maxN": 0}


def gen(rng, tier):
    ws = [(w, True) for w in modelled_workloads(rng, tier)] + [(w, False) for w in other_workloads(rng, tier)]
    seen, uniq = set(), []
    for w, m in ws:
        if w not in seen:
            seen.add(w)
            uniq.append((w, m))
    n_of = _counts([w for w, _ in uniq])
    for idx, (w, modelled) in enumerate(uniq):
        n = n_of.get(w, 40)
        lines = ["%s %d 0" % (w, k) for k in range(0, n + 2)]
        if tier == "thorough" and n >= 2:
            pairs = set()
            for _ in range(min(3 * n, 40)):
                k1 = rng.randrange(1, n + 1)
                k2 = rng.randrange(1, n + 2)
                if k1 != k2:
                    pairs.add((min(k1, k2), max(k1, k2)))
            lines += ["%s %d %d" % (w, a, b) for a, b in sorted(pairs)]
        _stats["workloads"] += 1
        _stats["lines"] += len(lines)
        _stats["faults"] += n
        _stats["maxN"] = max(_stats["maxN"], n)
        yield {"id": "w%d-%s" % (idx, w.split()[0]), "lines": lines}


# --------------------------------------------------------------------------- verdicts
_known_tags = None
_reported, _suppressed = {}, {}
_outcomes = {}


def _known():
    global _known_tags
    if _known_tags is None:
        _known_tags = {f["tag"] for f in C.load_known().get("findings", []) if f.get("property") == PROP}
    return _known_tags


def verdict(spec):
    """what the property forbids, read off the harness's spec observables"""
    bad = []
    if "WRONG" in spec:
        bad.append("wrong result: " + spec[spec.index("WRONG"):][:80])
    if "text=TRUNC" in spec:
        bad.append("serializer returned a text other than the fault-free text (" + spec.split(" got=")[0] + ")")
    for f in spec.split():
        if f.startswith("leak=") and f != "leak=0":
            bad.append("blocks leaked or freed behind the caller's back: " + f)
        if f == "same=0":
            bad.append("a caller-owned object changed although the operation failed (or the successful result differs from the fault-free one)")
    return bad


_model_div = {}      # case id -> (line index, detail): first line on which implementation != Lean model


def compare_line(case, i, il, m, s, tags):
    """Property verdict per line.  A difference between implementation and Lean model (correspondence) must not
    hide a later line of the same case on which the property itself fails (check.py stops a case at its first
    divergence), so it is only recorded here and reported by check_case below."""
    if i == 0:
        _model_div.pop(case["id"], None)
    spec = il.split(" ## ")[0]
    name = case["lines"][i].split()[0]
    oc = "fail" if (" err=E" in il or spec.startswith(("null", "fail", "text=none")) or "rc=-1" in spec or "ret=0 " in spec + " ") else "ok"
    _outcomes[name + ":" + oc] = _outcomes.get(name + ":" + oc, 0) + 1
    if il == "bad-op" or m == "bad-op":
        return ("model", "malformed line")
    bad = verdict(spec)
    if bad:
        if il == m and tags and all(t in _known() for t in tags):
            if all(_reported.get(t, 0) >= 2 for t in tags):
                for t in tags:
                    _suppressed[t] = _suppressed.get(t, 0) + 1
                return None
            for t in tags:
                _reported[t] = _reported.get(t, 0) + 1
        if name == "ser" and len(bad) == 1 and "text=TRUNC" in spec and il != m and "ser.unchecked-append" in _known():
            # The recorded finding is identified by its call site (the emitters ignore failed appends), not by one
            # input: under another buffer-growth policy the same site drops other pieces at other allocation indices.
            # A truncated text from a serialization workload with nothing else wrong is that finding; that the Lean
            # model no longer predicts it byte for byte is a broken correspondence, reported as such below.
            _suppressed["ser.unchecked-append"] = _suppressed.get("ser.unchecked-append", 0) + 1
            _model_div.setdefault(case["id"], (i, "serializer truncation (known finding ser.unchecked-append) at a place the Lean "
                                               "allocation model does not predict: implementation differs from the model"))
            return None
        return ("spec", "; ".join(bad))
    if m.startswith("FAULT"):
        # the model does not cover this code shape (a structural fact of st_alloc.py is false) or would free a
        # dead block: the correspondence is lost; the property itself is judged by the harness's oracle above
        _model_div.setdefault(case["id"], (i, "the Lean allocation model reaches a fault here: " + m))
    elif m != "*" and il != m:
        _model_div.setdefault(case["id"], (i, "implementation differs from the Lean allocation model (result, calls, errno or request trace)"))
    return None


def check_case(case, impl_lines, model_lines):
    d = _model_div.get(case["id"])
    return [("model", d[0], d[1])] if d else []


def extra_coverage():
    return {"fault_enumeration": dict(_stats),
            "outcomes": dict(sorted(_outcomes.items())),
            "known_finding_lines": {t: _reported.get(t, 0) + _suppressed.get(t, 0) for t in sorted(set(_reported) | set(_suppressed))}}
