"""C11 string node: generator for the correspondence run (model: lean/JsonC/Model/StrStore.lean)."""
import itertools
from common import hexs

PROP = "C11"
HARNESS = "str"
COMPONENT = "str"
TIE = ["TranslatedStr"]      # Lemmas/TranslatedStr.lean: the memory discipline of _json_object_set_string_len on the definition translated by tools/extract/c2lean.py
VARIANT = "asan"
WRAPS = ("malloc", "free")          # harness/str.c counts allocator calls and fails the next malloc on request
INT_MAX = 2147483647
SLICE = 300
RULE = ("histories over one string node: constructor (new_string_len / strlen-based new_string / refused or failing "
        "constructor), then set_string_len / set_string / set with the next malloc failing / claimed-size sets on the "
        "refusal path, with lengths from {0,1,7,8,9,15,16,17,31,32,33,64,4096} and the current length -1/+0/+1 so that the "
        "inline threshold is crossed in both directions, bytes over 0..255 including NUL, interleaved with reads, equality "
        "against fresh and grown-then-shrunk nodes (equal and near-miss contents), deep copy (also failing), serialization, "
        "delete and re-creation; non-trivial = the model run hit >= 3 distinct branch tags; distinct = distinct op text")
NONTRIVIAL_MIN_TAGS = 3
ASSUMPTIONS = ["the source buffer of a set/new call is a caller object disjoint from the node (no self-aliasing set)",
               "malloc results other than the injected failure: fresh, disjoint blocks",
               "served lengths above 4096 are covered by the theorems only; the INT_MAX-1 / INT_MAX / negative length guards of both "
               "constructors are exercised on the refusal path with claimed sizes (newn / setn)",
               "the serializer is observed through the inverse of json_escape_str in the harness (escaping itself is C02)"]
TRUSTED = ["glibc memcpy/memcmp/strlen/malloc/free", "ld --wrap allocator interposition in harness/str.c"]

# str.len.int-truncation (json_object_new_string accepted strings longer than json_object_get_string_len can report:
# 2^31 bytes -> length -2147483648, deep copy fails; 2^32+5 bytes -> length 5, deep copy silently truncated) was repaired in
# /repo by `if (len >= INT_MAX - 1) return NULL;` in _json_object_new_string; the model has that guard (constant
# strNewIntGuardSlack regenerated from the source) and the theorems no longer carry a hypothesis about it.
DEFECTS = []

MANIFEST = dict(
    text="Lean 4 theorems over a checked-C model of the string node of json_object.c (signed-length inline/pointer union; "
         "_json_object_new_string, set_string(_len), accessors, delete, the string cases of equal / shallow copy / serializer reads) "
         "with a block-level memory whose every access is bounds-, liveness- and initialisation-checked and whose allocator events are "
         "logged: for every finite history of new / set / set_len / failing set / read / equal / copy / serialize / delete the run does "
         "not fault (no size_t/ssize_t overflow, inline writes inside the node's allocation, heap writes inside the buffer, no read after "
         "free, no double free), reading returns exactly the last bytes successfully stored with their count and a NUL at [len] "
         "(str_refines), a refused set leaves value and storage untouched (str_fail_intact), and when the history ends in delete every "
         "malloc has been freed exactly once and nothing was touched after its free (str_no_leak_no_uaf). Both ways of giving a node a value refuse "
         "len >= INT_MAX-1, so 'every value held is reportable through an int' is part of the representation invariant and all four "
         "theorems hold at full strength. Tied to the code by constants regenerated from the headers/sources on every run and by a differential run of model, spec "
         "and the ASan/LSan/UBSan-built implementation (allocator interposed: allocation sizes, frees, live blocks, injected malloc failure).",
    note="Trusted: Lean kernel + propext/Classical.choice/Quot.sound; tools/extract; the differential harness and its allocator wrapper; "
         "glibc memcpy/memcmp/strlen; malloc returns fresh disjoint blocks. The model is hand-written: theorems are about the model, the "
         "correspondence run is testing. Strings longer than 4096 bytes are not exercised by the run. Tie by translation (new): _json_object_set_string_len is translated from clang's typed AST of the current source into Lean on every run (tools/extract/c2lean.py -> Generated/Translated.lean; the JC_STRING cast helper is inlined after its body was checked to be `return (void *)jso`) and Lemmas/TranslatedStr.lean proves on that definition, for every node state, length and answer of malloc: a refused set changes neither the length field nor the data pointer and frees nothing; the old separately allocated buffer is freed only after malloc has delivered the new one, or when the new contents are empty; bytes and terminating NUL go to the new buffer when one was allocated, else to the current storage; the length field is -len exactly when the contents live in a separately allocated buffer afterwards (set_too_long, set_grow_refused, set_grow_served, set_fits - exhaustive).",
    technique="Lean 4 proof (representation invariant with frame conditions, refinement, induction over histories, event-log discipline) "
              "+ model/implementation correspondence run with allocator interposition + agreement theorems with Lean definitions translated from the current C source (clang AST) on every run",
    design="6/C11")

LENS = [0, 1, 7, 8, 9, 15, 16, 17, 31, 32, 33, 64, 4096]
SPECIAL = [0x22, 0x5c, 0x2f, 0x08, 0x0a, 0x0d, 0x09, 0x0c, 0x1f, 0x7f, 0x80, 0xff, 0x00, 0x01]


def rand_bytes(rng, n):
    k = rng.random()
    if k < 0.35:
        b = bytearray(rng.randrange(256) for _ in range(n))
    elif k < 0.5:
        b = bytearray([rng.choice([65, 0xff, 0x80, 1, 0x7f])]) * n
    elif k < 0.7:
        b = bytearray(rng.randrange(1, 256) for _ in range(n))      # NUL-free
    elif k < 0.85:
        b = bytearray(rng.choice(SPECIAL) for _ in range(n))
    else:
        b = bytearray(rng.randrange(0x20, 0x7f) for _ in range(n))
    if n and rng.chance(0.25):
        b[rng.choice([0, n - 1, n // 2])] = 0                       # NUL first / last / in the middle
    return bytes(b)


def pick_len(rng, cur):
    k = rng.random()
    if k < 0.45:
        n = rng.choice(LENS[:-1])
    elif k < 0.75:
        n = rng.choice([max(0, cur - 1), cur, cur + 1, cur // 2, cur * 2, cur + 8])
    elif k < 0.80:
        n = 4096
    else:
        n = rng.randrange(0, 70)
    return min(n, 4200)


def cprefix(b):
    i = b.find(b"\0")
    return b if i < 0 else b[:i]


def near_miss(rng, cur):
    """contents that differ from `cur` in exactly one of the ways a length/byte confusion would hide"""
    if not cur:
        return rng.choice([b"\0", b"A"])
    k = rng.randrange(6)
    if k == 0:
        return cur[:-1]
    if k == 1:
        return cur + b"\0"
    if k == 2:
        i = rng.randrange(len(cur))
        return cur[:i] + bytes([cur[i] ^ 0x01]) + cur[i + 1:]
    if k == 3:
        return cprefix(cur) if cprefix(cur) != cur else cur + b"A"
    if k == 4:
        return cur[:-1] + bytes([cur[-1] ^ 0x80])
    return cur[1:] + cur[:1] if cur[1:] + cur[:1] != cur else cur + cur


def gen_history(rng, nops):
    cur = None            # value the node should hold (None: no node)
    lines = []

    def construct():
        nonlocal cur
        k = rng.random()
        b = rand_bytes(rng, pick_len(rng, 8))
        if k < 0.6:
            lines.append("new " + hexs(b)); cur = b
        elif k < 0.8:
            lines.append("newz " + hexs(b)); cur = cprefix(b)
        elif k < 0.88:
            lines.append(rng.choice(["newfail ", "newzfail "]) + hexs(b))
        elif k < 0.94:
            n = rng.choice([-1, -2, -INT_MAX - 1, -INT_MAX, INT_MAX, INT_MAX - 1, 0, 1, 7, 8])
            lines.append("newn %d" % n)
            if 0 <= n <= 8:
                cur = b"\0" * n
        else:
            lines.append("get")     # on no node

    construct()
    for _ in range(nops):
        if cur is None:
            construct()
            continue
        k = rng.random()
        if k < 0.34:
            b = rand_bytes(rng, pick_len(rng, len(cur)))
            lines.append("set " + hexs(b)); cur = b
        elif k < 0.44:
            b = rand_bytes(rng, pick_len(rng, len(cur)))
            lines.append("setz " + hexs(b)); cur = cprefix(b)
        elif k < 0.54:
            # the next malloc fails: refused exactly when the set would have to grow
            b = rand_bytes(rng, pick_len(rng, len(cur)))
            z = rng.chance(0.25)
            lines.append(("setzfail " if z else "setfail ") + hexs(b))
            nb = cprefix(b) if z else b
            if len(nb) <= len(cur):
                cur = nb
        elif k < 0.58:
            n = rng.choice([-1, -2, -INT_MAX - 1, INT_MAX, INT_MAX - 1, 0, 1, 7, 8, min(8, len(cur))])
            lines.append("setn %d" % n)
            if 0 <= n <= 8:
                cur = b"\0" * n
        elif k < 0.66:
            lines.append("get")
        elif k < 0.74:
            lines.append("eq " + hexs(cur if rng.chance(0.5) else near_miss(rng, cur)))
        elif k < 0.80:
            # second node grown and/or shrunk before the comparison
            a = rand_bytes(rng, rng.choice([0, 1, 7, 8, 9, 20, 40]))
            b = cur if rng.chance(0.6) else near_miss(rng, cur)
            lines.append("eqv %s %s" % (hexs(a), hexs(b)))
        elif k < 0.86:
            lines.append("copy")
        elif k < 0.89:
            lines.append("copyfail")
        elif k < 0.94:
            lines.append("ser")
        elif k < 0.97:
            lines.append("del"); cur = None
        else:
            lines.append(rng.choice(["new 41", "newz 4142", "newn 3"]))     # slot occupied
    if cur is not None and rng.chance(0.9):
        lines.append("del")
    return lines


def realize(templates):
    """fill in the comparison operands of an exhaustive sequence from the value the node should hold"""
    cur, out = None, []
    for t in templates:
        w = t.split()
        if w[0] in ("new", "set") and (cur is not None or w[0] == "new"):
            if not (w[0] == "new" and cur is not None):
                cur = b"" if w[1] == "-" else bytes.fromhex(w[1])
        elif w[0] in ("newz", "setz") and (cur is not None or w[0] == "newz"):
            if not (w[0] == "newz" and cur is not None):
                cur = cprefix(b"" if w[1] == "-" else bytes.fromhex(w[1]))
        elif w[0] == "setfail" and cur is not None:
            b = b"" if w[1] == "-" else bytes.fromhex(w[1])
            if len(b) <= len(cur):
                cur = b
        elif w[0] == "del":
            cur = None
        elif w[0] == "EQ":
            t = "eq " + hexs(cur if cur is not None else b"A")
        elif w[0] == "EQV":
            t = "eqv %s %s" % ("41" * 20, hexs(cur if cur is not None else b"A"))
        elif w[0] == "NEQ":
            c = cur if cur is not None else b"A"
            t = "eq " + hexs(c + b"\0")
        out.append(t)
    return out


def h(n, c):
    return hexs(bytes([c]) * n)


ALPHABET = ["set -", "set " + h(1, 0x61), "set " + h(7, 0x62), "set " + h(8, 0x63), "set " + h(9, 0x64), "set " + h(17, 0x65),
            "set 6600" + h(6, 0x66), "setz 670067", "setfail " + h(9, 0x68), "setfail " + h(33, 0x69), "setfail " + h(2, 0x6a),
            "get", "EQ", "EQV", "NEQ", "copy", "copyfail", "ser", "setn -1", "del", "new " + h(3, 0x6b),
            "newn 2147483646"]
STARTS = [["new -"], ["new " + h(7, 0x41)], ["new " + h(8, 0x42)], ["new " + h(9, 0x43)], ["new " + h(20, 0x44)],
          ["newz 450045"], ["new " + h(5, 0x46), "set " + h(30, 0x47)], ["new " + h(12, 0x48), "set " + h(40, 0x49), "set " + h(3, 0x4a)]]


def big_history(rng, n1):
    """a string far beyond the lengths of the random histories (n1 bytes, then about twice as long): grown in place of a
    separately allocated buffer, with and without a failing allocation - a failed set must leave the previous contents
    (round-6 seed C11-10: a setter that releases a large old buffer before it has the new one)"""
    a = rand_bytes(rng, n1)
    b = rand_bytes(rng, 2 * n1 + rng.randrange(0, 9))
    c = rand_bytes(rng, n1 + rng.randrange(1, 50))
    lines = ["new " + hexs(rand_bytes(rng, rng.choice([0, 3, 40]))), "set " + hexs(a), "get",
             "setfail " + hexs(c), "get", "eq " + hexs(a), "setfail " + hexs(b), "get", "copy", "set " + hexs(b), "get",
             "setfail " + hexs(b + b"x"), "get", "set " + hexs(a[: n1 // 2]), "get", "del"]
    return lines


def gen(rng, tier):
    n = 2500 if tier == "quick" else 60000
    for n1 in ([65535, 65536, 70001, 1 << 20] if tier == "quick" else [4096, 16384, 65535, 65536, 65537, 131072, 1 << 20, (1 << 20) + 1, 5 << 20]):
        yield {"lines": big_history(rng, n1), "noshrink": True}
    for i in range(n):
        yield {"lines": gen_history(rng, rng.choice([2, 5, 10, 20, 40]))}
    depth = 2 if tier == "quick" else 3
    for st in STARTS:
        for d in range(1, depth + 1):
            for seq in itertools.product(ALPHABET, repeat=d):
                yield {"lines": realize(st + list(seq) + ["get", "EQ", "del"]), "keep": len(st)}
    # a small malformed stream
    yield {"lines": ["bogus", "set", "new 41 42", "new 41", "set 4", "frob 1 2", "del"]}
