"""C04: the parser is total and memory-safe on arbitrary bytes and reusable after reset."""
import tokgen
from common import hexs

PROP = "C04"
HARNESS = "tok"
COMPONENT = "tok"
TIE = ["TranslatedTok", "TranslatedReset"]      # Lemmas/TranslatedReset.lean: json_tokener_reset / json_tokener_reset_level as translated (every level depth..0 reset exactly once, release before the slot is cleared, depth/err/high_surrogate zeroed = the model's reset); Lemmas/TranslatedTok.lean: Model/Tokener.lean validateUtf8 = json_tokener_validate_utf8 as translated by tools/extract/c2lean.py
VARIANT = "asan"
RULE = ("byte strings (random over a JSON-heavy alphabet, grammar output, mutated grammar output with NUL / invalid UTF-8 / "
        "extension snippets) x flag sets x depth limits {1,2,3,32} x chunkings (one shot, two, random, byte-wise, len=-1), and "
        "parse/reset/parse sequences compared with a fresh parser; every input lives in an exact-size heap block under ASan; "
        "non-trivial = model run hit >= 3 distinct tags; distinct = distinct op text")
ASSUMPTIONS = ["allocation succeeds (C08)", "strtod/strtoll/strtoull agree with the Lean reference (checked on every number the run parses)"]
TRUSTED = ["glibc strtod/strtoll/strtoull", "ASan/UBSan as observers of out-of-bounds reads and undefined operations"]
NONTRIVIAL_MIN_TAGS = 3
MANIFEST = dict(
    text="Lean 4 theorems over a byte-driven model of json_tokener_parse_ex (27 states, redo chains on fuel, loop, epilogue): from every "
         "tokener reachable from json_tokener_new_ex by any parse/reset/set_flags calls (Reachable => WF, by induction), for every byte "
         "string, flag word, depth limit >= 1 and whatever libc returns: each byte is dispatched without fault (no negative shift, no level-stack "
         "index outside [0,max_depth), no attach to a non-container), the goto-redo chain terminates (rank argument, fuel 16 never exhausted), the "
         "loop reads at most the bytes given (end <= len), len=-1 never reads past the first NUL, the outcome is exactly one of value+success / "
         "continue / error, and the tokener stays well-formed; json_tokener_new_ex refuses depth < 1. The model is tied to the code by regenerated "
         "enum/flag constants and by a differential run that compares status, end position, value and every public tokener field after every call. "
         "The clause 'a reset parser behaves exactly like a new one' is the theorem `reset_behaves_like_new`: for ANY tokener state (reachable "
         "or not), after json_tokener_reset every later sequence of calls returns call by call what a tokener fresh from json_tokener_new_ex with the "
         "same depth and flags returns (simulation relation Eqv: the fields reset leaves behind - pb, st_pos, is_double, ucs_char, quote_char - are "
         "dead while a level waits for a value); the differential run additionally compares a reset twin with a fresh parser.",
    note="Trusted: Lean kernel + propext/Classical.choice/Quot.sound; tools/extract; harness/tok.c + Driver/Tok.lean; ASan/UBSan as observers. The "
         "model is hand-written; that the C code computes indices as the model does rests on the correspondence run. Allocation success assumed (C08). Tie by translation (new): json_tokener_validate_utf8 is translated from clang's typed AST of the current source into Lean on every run (tools/extract/c2lean.py -> Generated/Translated.lean) and Lemmas/TranslatedTok.lean proves that the model's validateUtf8 returns the same verdict and pending count for every byte (as the signed char it arrives in; the bit tests compared for all 256 bytes by kernel evaluation, `decide +kernel`, no axiom) and every pending count (validate_first, cont_test, validate_cont). json_tokener_reset and json_tokener_reset_level are translated too and Lemmas/TranslatedReset.lean proves, for every depth, that reset calls reset_level for depth, depth-1, ..., 0 exactly once each and then writes depth = 0, err = success, high_surrogate = 0 (the model's reset), and that reset_level writes eatws/start, gives up `current` and frees `obj_field_name` before clearing each slot (reset_level_trace, loop_agrees, reset_sweeps, reset_null).",
    technique="Lean 4 proof (representation invariant + rank/termination, induction over input and call history) + model/implementation correspondence run + agreement theorems with Lean definitions translated from the current C source (clang AST) on every run",
    design="6/C04")


def parse_fields(line):
    sp = line.split(" ## ")[0].split(" ")
    return int(sp[0]), int(sp[1]), sp[2]


def check_case(case, impl, model):
    """the property's own clauses, evaluated on the implementation's output"""
    out = []
    for i, op in enumerate(case["lines"]):
        w = op.split(" ")
        if w[0] in ("p", "pz") and i < len(impl) and " ## " in impl[i]:
            err, end, val = parse_fields(impl[i])
            n = 0 if w[1] == "-" else len(w[1]) // 2
            if val == "!":
                out.append(("spec", i, "a value was returned together with an error status"))
            if err == 0 and val == "-":
                out.append(("spec", i, "success without a value dump"))
            if w[0] == "p" and end > n:
                out.append(("spec", i, "end position %d exceeds the given length %d" % (end, n)))
            if w[0] == "pz":
                z = bytes.fromhex(w[1]) if w[1] != "-" else b""
                zl = z.index(0) if 0 in z else len(z)
                if end > zl + 1:
                    out.append(("spec", i, "len=-1: end position %d beyond the terminating NUL at %d" % (end, zl)))
    tw = case.get("twin")
    if tw:
        a, b, k = tw
        for j in range(k):
            if a + j < len(impl) and b + j < len(impl) and impl[a + j].split(" ## ")[0] != impl[b + j].split(" ## ")[0]:
                out.append(("spec", a + j, "after reset the parser differs from a new one: %r vs %r" % (impl[a + j], impl[b + j])))
                break
    return out


def some_input(rng):
    k = rng.random()
    if k < 0.15:
        return tokgen.random_bytes(rng, rng.choice([1, 3, 8, 20, 60]))
    if k < 0.35:
        return tokgen.torture(rng)
    t = tokgen.gen_text(rng)
    if k < 0.45:
        return t
    return tokgen.mutate(rng, t)


def gen(rng, tier):
    n = 2500 if tier == "quick" else 60000
    for i in range(n):
        depth = rng.choice([1, 2, 3, 32, 32])
        flags = rng.choice(tokgen.FLAGSETS)
        lines = ["new %d %d" % (depth, flags)]
        data = some_input(rng)
        mode = rng.random()
        if mode < 0.25:
            # len = -1: the terminating NUL often falls inside an unfinished token / comment / container
            if rng.chance(0.6):
                data = data + rng.choice([b"//x", b" // trailing note", b"/* x", b"/* x *", b'"abc', b'"a\\', b'"\\u12', b'"\\ud83d',
                                          b'"\\ud83d\\', b"[1,", b'{"a":', b'{"a', b"tru", b"nul", b"-", b"1e", b"1.", b"-Infini", b"/"])
            lines.append("pz " + hexs(data))
        else:
            for ch in tokgen.chunkings(rng, data, rng.choice(["one", "two", "rand", "bytes", "rand"])):
                lines.append("p " + hexs(ch))
        yield {"lines": lines, "keep": 1}
    # parse / reset / parse compared with a fresh parser
    m = 800 if tier == "quick" else 15000
    for i in range(m):
        depth = rng.choice([1, 2, 3, 32])
        flags = rng.choice(tokgen.FLAGSETS)
        first = [some_input(rng) for _ in range(rng.choice([1, 1, 2]))]
        # make the first phase stop in the middle of something, often inside an escape / surrogate / number
        if rng.chance(0.5):
            first[-1] = first[-1] + rng.choice([b'"\\ud83d', b'"\\ud800\\', b'"\\u12', b"[1e", b"-", b'{"a', b"/*", b"tru", b"[[[", b'"\\'])
        second = [some_input(rng) for _ in range(rng.choice([1, 2]))]
        if rng.chance(0.5):
            second[0] = rng.choice([b'"\\u0041"', b'"\\udc00x"', b"12 ", b'{"k":"\\ud83d\\ude00"}']) + second[0]
        lines = ["new %d %d" % (depth, flags)] + ["p " + hexs(x) for x in first] + ["reset"]
        a = len(lines)
        lines += ["p " + hexs(x) for x in second]
        lines += ["new %d %d" % (depth, flags)]
        b = len(lines)
        lines += ["p " + hexs(x) for x in second]
        yield {"lines": lines, "keep": 1, "noshrink": True, "twin": (a, b, len(second))}
    yield {"lines": ["new 0 0", "new -5 0", "new 1 0", "p 5b5d", "p 5b5b5d5d"]}
    # every prefix of every literal / keyword, alone and inside containers, as an exact-length buffer (the harness hands
    # each chunk over in a heap block of exactly its size): a look-ahead past the bytes given is an out-of-bounds read
    # (seed C04-6 - an 8-byte comparison of "Infinity" when 7 bytes are there - was found by chance only)
    for word in (b"Infinity", b"-Infinity", b"NaN", b"true", b"false", b"null", b"INFINITY", b"-infinity", b"nan", b"TRUE", b"Null"):
        for pre, post in ((b"", b""), (b"[", b"]"), (b'{"k":', b"}"), (b"[1, ", b" ]")):
            full = pre + word + post
            for cut in range(len(pre), len(full) + 1):
                for flags in (0, 1):
                    yield {"lines": ["new 32 %d" % flags, "p " + hexs(full[:cut]), "p " + hexs(full[cut:]), "p 00"], "keep": 1}
