"""C01: parsing a valid JSON text yields exactly the value the text denotes."""
import tokgen, tokoracle
from common import hexs

PROP = "C01"
HARNESS = "tok"
COMPONENT = "tok"
VARIANT = "asan"
NONTRIVIAL_MIN_TAGS = 3
RULE = ("RFC 8259 texts generated from the grammar (every escape form, raw UTF-8 scalars, surrogate combinations, all number shapes incl. the "
        "integer lattice around +-2^63 and 2^64 and random decimals, any whitespace layout, nesting up to the limit) x {default, strict}; the "
        "expected value is computed by the Lean specification (Spec/Rfc8259: Doc.denote of the Doc whose rendering is the text); thorough adds "
        "all 65536 \\\\uXXXX units, all surrogate (high|low|other) x (high|low|other|escape|char) combinations and a block of the pair grid; "
        "non-trivial = >= 3 distinct model tags; distinct = distinct text")
ASSUMPTIONS = ["allocation succeeds (C08)", "C locale in effect inside the call (C14)"]
TRUSTED = ["Spec/Rfc8259.lean is the RFC 8259 grammar (by inspection)", "glibc strtod is correctly rounding on the generated decimals "
           "(compared with the exact Lean reference on every number)"]
MANIFEST = dict(
    text="Specification: Spec/Rfc8259.lean - RFC 8259 as an inductive type `Doc` (white space explicit at every position) with `text`, `denote` "
         "(surrogate pairs combined, unpaired -> U+FFFD, members first-occurrence order/last value, integers exact with 64-bit saturation, "
         "non-integers = exact round-to-nearest-even of the decimal), `nest`. Theorem `parse_valid` (Props/C01.lean), proved by induction over `Doc` "
         "on the byte-driven tokener model with no bound on size or depth: for a tokener created with any depth limit and flags 0 or STRICT, and EVERY "
         "text `ws value ws` whose nesting fits the limit (member names free of U+0000; in strict mode integers within 64 bits), the call on the "
         "NUL-terminated text succeeds, returns exactly `denote`, reports the text length as end position, and no step is undefined. "
         "`strict_rejects_wide_integer`: strict mode answers 'number expected' for an integer outside 64 bits; default-mode saturation is `parse_valid` "
         "at flags 0. Each run re-checks the theorems against the constants/structure regenerated from /repo, and compares implementation = model = "
         "specification on thousands of grammar-generated texts (thorough: all 65536 \\uXXXX units, surrogate grid, integer lattice).",
    note="Trusted: Lean kernel + propext/Classical.choice/Quot.sound; Spec/Rfc8259.lean as the reading of RFC 8259; hypothesis LibcSpec (strtoll/strtoull "
         "exact with ERANGE saturation, strtod correctly rounded and consuming the whole number) - compared with glibc on every generated number; "
         "harness/tok.c + Driver/Tok.lean; allocation succeeds (C08). Member names containing U+0000 are cut at the NUL (keys are C strings): known finding, "
         "excluded from the theorem by `keysNulFree`.",
    technique="Lean 4 proof (refinement of an RFC 8259 grammar datatype by the tokener machine, induction over documents) + three-way correspondence run",
    design="6/C01")
KNOWN = [dict(property="C01", id="C01-nul-in-member-name", tag="tok.key.nul-truncated", site="json_tokener.c: obj_field_name = strdup(tok->pb->buf)",
              witness='{"a\\u0000b":1,"a\\u0000c":2}', description="a member name containing an escaped U+0000 is cut at the NUL (json-c keys are C strings): "
              "the two members above collapse into {\"a\":2}")]


def check_case(case, impl, model):
    out = []
    ex = case.get("expect")
    if not ex:
        return out
    i = ex["line"]
    if i >= len(impl) or " ## " not in impl[i]:
        return out
    err, end, val = tokoracle.fields(impl[i])
    want_err, want_end, want_val = ex["err"], ex["end"], ex["val"]
    if want_err == 7 and err >= 2:
        return out          # rejected, as the property demands (the status is "number expected" or, at end of input, "unexpected end of data")
    if err != want_err:
        out.append((ex.get("kind", "spec"), i, "valid text: status %d, the specification says %d" % (err, want_err)))
    elif want_err == 0 and (val != want_val or end != want_end):
        out.append((ex.get("kind", "spec"), i, "valid text accepted but value/end differ: got %s end %d, the text denotes %s (length %d)" % (val, end, want_val, want_end)))
    return out


def lattice():
    base = [2 ** 63, 2 ** 64, 2 ** 31, 2 ** 32, 2 ** 53, 10 ** 19, 10 ** 20]
    for b in base:
        for d in (-2, -1, 0, 1, 2):
            yield str(b + d).encode()
            yield ("-" + str(b + d)).encode()
    for s in (b"0", b"-0", b"0.0", b"-0.0", b"1e0", b"1E+0", b"1e-0", b"0e5", b"-0e-5", b"4.9e-324", b"2.5e-324", b"1.7976931348623157e308",
              b"1.7976931348623159e308", b"2.2250738585072014e-308", b"0.1", b"0.30000000000000004", b"9007199254740993", b"9007199254740993.0",
              b"1e400", b"-1e400", b"1e-400", b"123456789012345678901234567890.5", b"0." + b"0" * 30 + b"1", b"1" + b"0" * 40):
        yield s


def texts(rng, tier):
    n = 2200 if tier == "quick" else 30000
    for _ in range(n):
        yield tokgen.gen_text(rng, rng.choice([1, 3, 6, 12]))
    for s in lattice():
        yield rng.choice([b"", b" "]) + s + rng.choice([b"", b"\n"])
        yield b"[" + s + b"]"
    for _ in range(300 if tier == "quick" else 20000):
        yield tokgen.gen_number(rng)
    # short mantissas against every decimal exponent: the region where a conversion could take a shortcut through exact powers of
    # ten (10^22 is the last exact one), and the edges of the double range (round-8 seed C01-14)
    mants = ["1", "7", "3", "15", "841", "9007", "123456789012345", "999999999999999", "72057594037927", "5"]
    exps = list(range(-45, 46)) + ([-330, -324, -323, -308, -307, 290, 300, 307, 308, 309] if tier == "quick" else list(range(-345, -45)) + list(range(46, 330)))
    for e in exps:
        forms = []
        for m in mants:
            forms += ["%se%d" % (m, e), "%sE%+d" % (m, e), "%s.5e%d" % (m, e - 1), "0.%se%d" % (m, e + len(m)), "-%s.25e%d" % (m, e)]
        yield ("[" + ",".join(forms) + "]").encode()
    # escapes: sampled in quick, exhaustive units in thorough
    units = range(0, 0x10000, 257) if tier == "quick" else range(0x10000)
    for u in units:
        yield b'"\\u%04x"' % u
    sur = [0xd800, 0xd801, 0xdbff, 0xdc00, 0xdfff, 0xd836, 0xd83d, 0xde00, 0x0041, 0xffff]
    for a in sur:
        for b in sur:
            yield b'"\\u%04x\\u%04x"' % (a, b)
            yield b'"\\u%04xx\\u%04x"' % (a, b)
            yield b'"\\u%04x\\n\\u%04x"' % (a, b)
            yield b'{"\\u%04x\\u%04X":"\\u%04x"}' % (a, b, a)
    if tier == "thorough":
        for hi in range(0xd800, 0xdc00, 7):
            for lo in range(0xdc00, 0xe000, 61):
                yield b'"\\u%04x\\u%04x"' % (hi, lo)
    # deep nesting up to the limit
    for d in (1, 5, 30, 31):
        yield tokgen.nested(rng, d)
    yield b'{"a\\u0000b":1,"a\\u0000c":2}'
    yield b'{"a":1,"b":2,"a":3}'


def gen(rng, tier):
    ts = list(dict.fromkeys(texts(rng, tier)))
    ans = tokoracle.ask_docs([(32, t) for t in ts])
    for t, a in zip(ts, ans):
        if not a["valid"]:
            continue          # the generator produced something the specification does not read as RFC 8259: not a C01 input
        if a["nest"] >= 32:
            continue
        for flags in (0, 1):
            ex = {"line": 1, "end": len(t), "val": a["dump"], "err": 0}
            if not a["fits"] and flags == 1:
                ex["err"] = 7
            if not a["knf"]:
                ex["kind"] = "known:tok.key.nul-truncated"
            yield {"lines": ["new 32 %d" % flags, "pz " + hexs(t)], "keep": 2, "noshrink": True, "expect": ex}
