"""C18 threaded build: generator + oracle for the SUPPORTING run (model: lean/JsonC/Model/Threads.lean).

What is proved is in lean/JsonC/Props/C18.lean (every interleaving, any number of threads).  What a proof
cannot carry - that the __sync_/__atomic_ builtins are indivisible on this machine and that no other code
touches the counter / the seed concurrently - is what this run looks at: the library compiled with
-DENABLE_THREADING, once under ThreadSanitizer (clang) and once plainly (gcc), driven by real threads
(harness/thr.c; every scenario in a fresh process), compared with the model's schedule-independent
prediction; every ThreadSanitizer report is a violation."""
import atexit, os, re, shutil, sys

PROP = "C18"
HARNESS = "thr"
COMPONENT = "thr"
VARIANT = "tsan"
WRAPS = ("json_c_get_random_seed",)       # harness/thr.c supplies the candidates (random_seed.o stays linked but unused)
TIMEOUT = 1500
SLICE = 60
NONTRIVIAL_MIN_TAGS = 3
RULE = ("scenarios = per-thread programs over json_object_get / json_object_put / exclusive work on shared and private nodes "
        "(exclusive work = serialise/parse back/compare, or an error path that records a last-error message; 2-12 threads, 1-4 nodes, loop bodies balanced per round, 1..30000 rounds, tails that release some or all references so "
        "that the last put happens inside the race or in the main thread), and first-hash races of 2-16 threads whose "
        "json_c_get_random_seed returns distinct candidates (some preceded by -1) after a rendezvous; every scenario is executed "
        "in a fresh process by the ThreadSanitizer build and by the plain gcc -DENABLE_THREADING build; compared: counter after "
        "join, delete-callback count during the race / after the main thread's release / after full release, json_object_put "
        "return values, hash agreement early/late/main thread, lookups; non-trivial = >= 3 coverage tags; distinct = distinct op text")
ASSUMPTIONS = ["__sync_add_and_fetch / __sync_sub_and_fetch / __sync_val_compare_and_swap / __atomic_load_n are indivisible on the "
               "hardware (cannot be proved; exercised by the stress run on this machine only)",
               "no code outside json_object_get / json_object_put / lh_char_hash writes _ref_count of a shared node or random_seed "
               "while threads run (json_object_new initialises the counter before the node is shared)",
               "callers respect ownership (json_object.h): a thread calls get/put/uses a node only while it owns a reference",
               "fewer than 2^32 references per node (the assert in json_object_get)",
               "the supporting run explores the schedules the OS produces here; ThreadSanitizer reports are complete only for the "
               "executions it observed"]
TRUSTED = ["tools/extract/st_thr.py classifies every textual access to _ref_count / random_seed in the three anchored functions "
           "(completeness is cross-checked by counting the occurrences of the names)",
           "ThreadSanitizer (clang 14) happens-before race detection; pthreads; the harness' fork/exec plumbing"]

MANIFEST = dict(
    text="Lean 4 theorems over an interleaving model of json_object_get/json_object_put on shared counters and of lh_char_hash's seed "
         "protocol: for EVERY schedule of ANY number of threads running any programs that respect ownership, no update is lost (counter = "
         "initial + gets - puts at every moment), the run never faults (no failed assert, no use after free, no wrap), the node is torn "
         "down exactly once, exactly when the counter reaches 0, by the last operation on it (no_lost_update, destroy_once_after_last, "
         "destroying_put_is_last, final_count_schedule_independent); threads on disjoint nodes do not interfere; the seed is written at "
         "most once, from -1, never changes afterwards, and every hash of every thread at every time uses the published value (seed_stable); "
         "race_free: in the access lists extracted from the preprocessed -DENABLE_THREADING source no plain access to _ref_count / "
         "random_seed can be concurrent with a write. The update kind (atomicRMW), the +1/-1/destroy-iff-zero shape and the seed protocol "
         "facts (retry loop, CAS from -1, re-read after the CAS) are regenerated from the source on every run and discharged by `decide`; "
         "counter-example schedules are proved for the plain-++ semantics (lost update -> premature teardown), for hashing with a local copy "
         "of the seed, and for a missing retry loop. PARTIAL: atomicity of the builtins on the hardware is assumed; it is exercised by a "
         "supporting run - ThreadSanitizer build + plain threaded build, N threads x generated get/put programs and first-hash races in "
         "fresh processes, compared with the model's schedule-independent prediction; any ThreadSanitizer report is a violation.",
    note="Trusted: Lean kernel + propext/Classical.choice/Quot.sound; tools/extract/st_thr.py; clang ThreadSanitizer; harness/thr.c. "
         "The model is hand-written (theorems are about the model); the stress run is testing, on the schedules this machine produces.",
    technique="Lean 4 proof (invariant over all schedules of an interleaving semantics, parameterised by source-extracted access kinds) "
              "+ ThreadSanitizer / stress correspondence run",
    design="6/C18")

# The data races this check found on the tree it was built against were repaired by `fix:` commits
# (aa9165f asserts in json_object_get/put, da611db lh_char_hash, 06700af last-error buffer): nothing is recorded as a known finding,
# every ThreadSanitizer report is a violation.
KNOWN = []

DEFECTS = [
    dict(tag="thr.refcount.assert-plain-read (fixed by /repo aa9165f, tag removed)",
         input="nodes 1 / t 0 0:1 2000 g0 p0 / / t 1 0:1 2000 g0 p0 / / run tsan",
         observed="ThreadSanitizer: data race, plain read `assert(jso->_ref_count < UINT32_MAX)` (json_object_get) / "
                  "`assert(jso->_ref_count > 0)` (json_object_put) vs atomic write __sync_add_and_fetch/__sync_sub_and_fetch by another thread",
         expected="no data race (property text: \"the operations are free of data races\"); race_free over the extracted access list",
         suggested_fix="read the counter with __atomic_load_n(&jso->_ref_count, __ATOMIC_RELAXED) inside the asserts when "
                       "HAVE_ATOMIC_BUILTINS && ENABLE_THREADING (applied)"),
    dict(tag="thr.seed.plain-read (fixed by /repo da611db, tag removed)",
         input="seed 4 5 7 9 11 / run tsan",
         observed="ThreadSanitizer: data race, plain (volatile) reads of random_seed in lh_char_hash (`if (random_seed == -1)`, "
                  "`(uint32_t)random_seed`) vs __sync_val_compare_and_swap(&random_seed, -1, seed) by another thread",
         expected="no data race",
         suggested_fix="__atomic_load_n(&random_seed, __ATOMIC_RELAXED) for both reads (applied)"),
    dict(tag="thr.last-err.global-buffer (fixed by /repo 06700af; guarded by the `e` ops of the disjoint-tree family)",
         input="nodes 2 / t 0 0:1 300 e0 / / t 1 1:1 300 e1 / / run tsan     (eN = json_object_deep_copy of the private node N, which "
               "carries userdata set with json_object_set_userdata: the copy fails in json_object_copy_serializer_data)",
         observed="ThreadSanitizer: data race (write/write in vsnprintf called from _json_c_set_last_err, json_util.c:78) on the process-global "
                  "static char _last_err[256]: two threads working on DISJOINT trees interfered through the last-error buffer whenever both "
                  "hit an error path that records a message (reproduced 6/6 runs)",
         expected="threads working on disjoint trees never interfere",
         suggested_fix="thread-local buffer: `static SPEC___THREAD char _last_err[256]` under HAVE___THREAD (applied; "
                       "json_util_get_last_err() now returns the calling thread's last error)"),
]

_SIDE = None
_STATS = dict(tsan_runs=0, plain_runs=0, tsan_reports=0)


def ENV(C):
    """second harness binary (plain gcc -DENABLE_THREADING), side directory for the children's stderr"""
    global _SIDE
    tsan = C.build_harness(HARNESS, "tsan", (), WRAPS)
    plain = C.build_harness(HARNESS, "thr", (), WRAPS)
    base = os.path.join(C.BUILD, "scratch", "thr")
    os.makedirs(base, exist_ok=True)
    _SIDE = os.path.join(base, "side-%d" % os.getpid())
    shutil.rmtree(_SIDE, ignore_errors=True)
    os.makedirs(_SIDE)
    atexit.register(shutil.rmtree, _SIDE, True)
    return {"THR_BIN_TSAN": tsan, "THR_BIN_PLAIN": plain, "THR_SIDE_DIR": _SIDE,
            "TSAN_OPTIONS": "exitcode=0:halt_on_error=0:report_thread_leaks=1:second_deadlock_stack=1"}


# ------------------------------------------------------------------ ThreadSanitizer report parsing
_sites_cache = None


def _sites():
    global _sites_cache
    if _sites_cache is None:
        import common as C
        sys.path.insert(0, os.path.join(C.HERE, "extract"))
        import st_thr
        try:
            _sites_cache = st_thr.sites(C.REPO, C.CFG)
        except Exception:
            _sites_cache = []
    return _sites_cache


ACCESS_HDR = re.compile(r"^\s+(Previous )?(atomic )?(read|write) of size \d+ at (0x[0-9a-f]+) by (main thread|thread T\d+)", re.I)
FRAME = re.compile(r"^\s+#(\d+) (\S+) (\S+?):(\d+)(?::\d+)? ")


def parse_tsan(text):
    """-> list of reports: dict(kind, accesses=[dict(atomic, rw, fn, file, line)], location)"""
    import common as C
    reports = []
    for block in text.split("=================="):
        m = re.search(r"WARNING: ThreadSanitizer: ([^\n(]+)", block)
        if not m:
            continue
        rep = dict(kind=m.group(1).strip(), accesses=[], location="")
        lines = block.split("\n")
        i = 0
        while i < len(lines):
            h = ACCESS_HDR.match(lines[i])
            if h:
                acc = dict(atomic=bool(h.group(2)), rw=h.group(3).lower(), fn="?", file="?", line=0)
                j = i + 1
                while j < len(lines) and lines[j].strip():
                    f = FRAME.match(lines[j])
                    # the first frame inside the library under test
                    if f and os.path.dirname(os.path.abspath(f.group(3))) == os.path.abspath(C.REPO):
                        acc.update(fn=f.group(2), file=os.path.basename(f.group(3)), line=int(f.group(4)))
                        break
                    j += 1
                rep["accesses"].append(acc)
            lm = re.match(r"\s+Location is (.*)", lines[i])
            if lm:
                rep["location"] = lm.group(1)[:80]
            i += 1
        reports.append(rep)
    return reports


def variable_of(acc, location):
    for s in _sites():
        if s["fn"] == acc["fn"] and s["line"] == acc["line"]:
            return s["var"]
    g = re.search(r"global '([^']+)'", location)
    if g:
        return g.group(1).split(".")[-1]
    try:
        import common as C
        src = open(os.path.join(C.REPO, acc["file"]), errors="replace").read().split("\n")[acc["line"] - 1]
        for v in ("_ref_count", "random_seed", "_last_err"):
            if v in src:
                return v
    except (OSError, IndexError):
        pass
    return "?"


def describe(rep):
    keys = []
    for a in rep["accesses"]:
        keys.append("%s%s %s:%s (%s:%d)" % ("atomic " if a["atomic"] else "plain ", a["rw"], a["fn"], variable_of(a, rep["location"]),
                                               a["file"], a["line"]))
    return "ThreadSanitizer: %s: %s" % (rep["kind"], " vs ".join(keys) or rep["location"])


def side_text(case, idx):
    if not _SIDE:
        return ""
    cid = case["id"].replace("/", "_").replace(" ", "_")
    try:
        return open(os.path.join(_SIDE, "%s.%d.err" % (cid, idx)), errors="replace").read()
    except OSError:
        return ""


def check_case(case, impl, model):
    """property oracle over the side channel: every ThreadSanitizer report is a violation (the comparison of the
    result lines with model and specification is check.py's default)"""
    out = []
    for i, l in enumerate(case["lines"]):
        if not l.startswith("run "):
            continue
        variant = l.split()[1]
        _STATS["tsan_runs" if variant == "tsan" else "plain_runs"] += 1
        if i >= len(impl):
            continue
        txt = side_text(case, i)
        reps = parse_tsan(txt) if "ThreadSanitizer" in txt else []
        _STATS["tsan_reports"] += len(reps)
        if reps:
            out.append(("spec", i, "; ".join(describe(r) for r in reps[:3])))
        elif "FATAL: ThreadSanitizer" in txt or "ThreadSanitizer:" in txt:
            out.append(("spec", i, "ThreadSanitizer output not understood: " + txt.strip()[:300]))
        elif impl[i].startswith("crash") and txt.strip():
            # explains the crash line (check.py reports the line mismatch itself)
            case.setdefault("stderr", {})[str(i)] = txt.strip()[-400:]
    return out


def extra_coverage():
    return {"supporting_run": dict(_STATS, note="every scenario runs in a fresh process per build variant; stderr of the children is "
                                                  "parsed for ThreadSanitizer reports (function, variable) - all are violations")}


# ------------------------------------------------------------------ generators
def held_str(h):
    items = ["%d:%d" % (n, k) for n, k in sorted(h.items()) if k > 0]
    return ",".join(items) if items else "-"


def balanced_body(rng, held, nodes, length, work_ok=()):
    """ops over `nodes` that keep every holding >= 1 before each op and return to the initial holdings"""
    bal = {n: 0 for n in nodes}
    ops = []
    for _ in range(length):
        n = rng.choice(nodes)
        r = rng.random()
        if n in work_ok and r < 0.25:
            # exclusive work on a private node; `e` = through an error path of the library that records a
            # last-error message (json_object_deep_copy of a node carrying userdata fails)
            ops.append("%s%d" % ("e" if rng.chance(0.4) else "w", n))
        elif r < 0.55 or held[n] + bal[n] <= 1:
            ops.append("g%d" % n); bal[n] += 1
        else:
            ops.append("p%d" % n); bal[n] -= 1
    for n in nodes:
        ops += ["p%d" % n] * bal[n] if bal[n] > 0 else ["g%d" % n] * (-bal[n])
    # compensating gets must come while the thread still owns a reference: holdings never drop below 1 above
    return ops


def tail_ops(rng, held, nodes, release_all):
    ops = []
    for n in nodes:
        k = held[n] if release_all else rng.randrange(0, held[n] + 1)
        extra = rng.choice([0, 0, 1, 2]) if k > 0 else 0
        ops += ["g%d" % n] * extra + ["p%d" % n] * (k + (extra if release_all or rng.chance(0.5) else 0))
    return ops


def rc_case(rng, nthreads, nnodes, reps, blen, cushion, release_all, private=False, variants=("tsan", "plain")):
    lines = ["nodes %d" % nnodes]
    total = [0] * nnodes
    for t in range(nthreads):
        if private:
            mine = [n for n in range(nnodes) if n % nthreads == t] or [t % nnodes]
            shared = []
        else:
            mine = []
            shared = sorted(rng.sample(range(nnodes), rng.randrange(1, nnodes + 1)))
        nodes = mine + shared
        held = {n: rng.choice([1, 1, 2, 3]) for n in nodes}
        for n in nodes:
            total[n] += held[n]
        body = balanced_body(rng, held, nodes, blen, work_ok=mine if private else ())
        tail = tail_ops(rng, held, nodes, release_all)
        lines.append("t %d %s %d %s / %s" % (t, held_str(held), reps, " ".join(body), " ".join(tail)))
    mh = {}
    for n in range(nnodes):
        k = cushion if (cushion and rng.chance(0.8)) else 0
        if total[n] + k == 0:
            k = 1
        if k:
            mh[n] = k
    if mh:
        lines.append("main %s" % held_str(mh))
    for v in variants:
        lines.append("run %s" % v)
    return {"lines": lines, "noshrink": True}


def ud_case(rng):
    """one shared node, several owners acquiring / releasing it; exactly one of them (re)installs the delete callback
    before its own last release: the destroying put - whichever thread it is - runs that callback, once"""
    nt = rng.choice([2, 2, 3, 4])
    lines = ["nodes 1"]
    setter = rng.randrange(nt)
    for t in range(nt):
        held = rng.choice([1, 1, 2])
        body = []
        tail = ["p0"] * held
        if t == setter:
            tail.insert(rng.randrange(0, held), "u0")
        elif rng.chance(0.5):
            body = ["g0", "p0"]
        lines.append("t %d 0:%d %d %s / %s" % (t, held, rng.choice([1, 3]) if body else 1, " ".join(body), " ".join(tail)))
    lines += ["run tsan", "run plain"]
    return {"lines": lines, "noshrink": True}


def seed_case(rng, n, with_unset):
    base = rng.sample(range(1, 2 ** 31 - 1), n)
    cands = []
    for i in range(n):
        pre = ["-1"] * (rng.choice([0, 1, 2]) if with_unset else 0)
        cands.append(",".join(pre + [str(rng.choice([base[i], -base[i], base[i] % 100 + 1]))]))
    k = rng.choice([1, 4, 9, 17, 40])
    return {"lines": ["seed %d %s" % (k, " ".join(cands)), "run tsan", "run plain"], "noshrink": True}


def small_programs(maxlen):
    """every ownership-respecting program over {g0, p0} of length <= maxlen for a thread that starts with 1 reference"""
    res = [[]]
    frontier = [([], 1)]
    for _ in range(maxlen):
        nxt = []
        for ops, h in frontier:
            if h >= 1:
                nxt.append((ops + ["g0"], h + 1))
                nxt.append((ops + ["p0"], h - 1))
        res += [o for o, _ in nxt]
        frontier = nxt
    return res


def gen(rng, tier):
    quick = tier == "quick"
    # A: contended shared nodes, many rounds (an update lost once in 10^4 operations shows up here)
    for i in range(8 if quick else 30):
        nt = rng.choice([2, 4, 4, 6, 8] if quick else [2, 3, 4, 6, 8, 12])
        reps = rng.choice([4000, 8000, 12000] if quick else [10000, 20000, 30000])
        cushion = rng.choice([0, 0, 1, 5000])
        yield rc_case(rng, nt, rng.choice([1, 1, 2]), reps, rng.choice([2, 4, 6]), cushion, release_all=(cushion == 0 and rng.chance(0.7)))
    # B: many small scenarios of varied structure
    for i in range(45 if quick else 400):
        yield rc_case(rng, rng.choice([2, 3, 4, 5]), rng.choice([1, 2, 3, 4]), rng.choice([1, 2, 3, 50, 300]), rng.choice([1, 2, 3, 5, 8]),
                      rng.choice([0, 0, 1, 2, 7]), release_all=rng.chance(0.5))
    # C: threads on disjoint trees (exclusive work: serialise, parse back, compare) next to their own counters
    for i in range(10 if quick else 60):
        nt = rng.choice([2, 3, 4, 8])
        yield rc_case(rng, nt, nt + rng.choice([0, 1, 3]), rng.choice([20, 100, 400]), rng.choice([3, 5]), 0, release_all=rng.chance(0.6), private=True)
    # C2: the delete callback re-installed by one owner while others release
    for i in range(12 if quick else 100):
        yield ud_case(rng)
    # D: first-hash races
    for i in range(14 if quick else 120):
        yield seed_case(rng, rng.choice([2, 3, 4, 8, 16]), with_unset=rng.chance(0.4))
    # E: small-scope enumeration: every pair (thorough: triple) of short programs on one shared node
    progs = small_programs(2 if quick else 3)
    pairs = [(a, b) for a in progs for b in progs]
    if quick:
        pairs = rng.sample(pairs, 25)
    for a, b in pairs:
        yield {"lines": ["nodes 1", "t 0 0:1 1 %s /" % " ".join(a), "t 1 0:1 1 %s /" % " ".join(b), "run tsan", "run plain"], "noshrink": True}
    if not quick:
        small = small_programs(2)
        for a in small:
            for b in small:
                for c in small:
                    yield {"lines": ["nodes 1", "t 0 0:1 3 / %s" % " ".join(a), "t 1 0:1 1 %s /" % " ".join(b), "t 2 0:1 1 / %s" % " ".join(c),
                                     "run plain"], "noshrink": True}
