"""C15: the nesting limit is exact and enforced for every configured depth."""
import tokgen, tokoracle
from common import hexs

PROP = "C15"
HARNESS = "tok"
COMPONENT = "tok"
TIE = ["TranslatedCtor"]       # Lemmas/TranslatedCtor.lean: the constructor as translated by tools/extract/c2lean.py
VARIANT = "asan"
NONTRIVIAL_MIN_TAGS = 3
RULE = ("depth limits D = 1..40 (and 0, negative) x documents whose maximum nesting is D-2..D+3 and far above (up to 10^5 opening brackets), arrays and "
        "objects mixed, empty containers at the boundary, depth reached via elements or member values, one-shot and chunked at every byte; the expected "
        "verdict (accept iff nest < D; otherwise error_depth at the offset of the first value enclosed by D containers) comes from the Lean specification "
        "Spec/Rfc8259 (Doc.nest, Doc.firstDeep); the level array is watched by ASan; non-trivial = >= 3 distinct model tags")
ASSUMPTIONS = ["allocation succeeds (C08)"]
TRUSTED = ["Spec/Rfc8259.lean (Doc.nest / Doc.firstDeep) as the meaning of 'enclosed by n containers'"]
MANIFEST = dict(
    text="Proved on the tokener model (Props/C15.lean): json_tokener_new_ex refuses D < 1; for every reachable tokener and arbitrary hostile bytes the level "
         "stack has between 1 and D levels (never indexed outside the array, no recursion: memory bounded by D); the nesting error is raised exactly by the "
         "push test `depth >= max_depth - 1`, i.e. only when a child value starts inside a container that already occupies the last level, and is raised "
         "then unless the byte closes an array. Grammar-level exactness is the theorem `depth_exact` (+ `accepted_iff_nest_below`), proved by induction "
         "over the RFC 8259 document type for every document, layout and D >= 1 in default and strict mode: accepted - with exactly the denoted value - iff "
         "nest < D; otherwise error_depth, no value, position = the first value enclosed by D containers (Doc.firstDeep). The differential run compares "
         "implementation, model and the specification's nest/firstDeep for D = 1..40, one-shot and chunked.",
    note="Trusted: Lean kernel + propext/Classical.choice/Quot.sound; Spec/Rfc8259.lean; hypothesis LibcSpec (number conversion, as in C01); harness/tok.c + Driver/Tok.lean; ASan as observer of the level array. Tie by translation (new): json_tokener_new_ex is translated from clang's typed AST of the current source into Lean on every run (tools/extract/c2lean.py -> Generated/Translated.lean) and Lemmas/TranslatedCtor.lean proves on that definition, for every depth: below 1 the answer is NULL and nothing was allocated; from 1 on the level stack is requested as exactly calloc(depth, sizeof(struct json_tokener_srec)) - the limit itself as the element count, not wrapped, capped or rounded -, the result is NULL exactly when an allocation fails, and every block obtained before a failure is freed (tokener_new_refuses, tokener_new_requests).",
    technique="Lean 4 proof (stack invariant for all inputs; exact accept/reject theorem by induction over documents) + correspondence run against the RFC 8259 specification + agreement theorems with Lean definitions translated from the current C source (clang AST) on every run",
    design="6/C15")


def check_case(case, impl, model):
    out = []
    fx = case.get("expect_fdx")
    if fx and impl and impl[0].startswith("fdx "):
        got = impl[0][4:]
        if fx["accept"] and got != fx["val"]:
            out.append(("spec", 0, "json_object_from_fd_ex(depth %d): nesting %d < limit must be accepted with value %s: got %s" % (fx["D"], fx["nest"], fx["val"], got)))
        if not fx["accept"] and got != "-":
            out.append(("spec", 0, "json_object_from_fd_ex(depth %d): nesting %d >= limit must be refused: got %s" % (fx["D"], fx["nest"], got)))
        return out
    ex = case.get("expect")
    if not ex:
        return out
    # result = first parse line whose status is not 'continue' (chunked runs), else the last
    consumed, res = 0, None
    for (i, n) in ex["lines"]:
        if i >= len(impl) or " ## " not in impl[i]:
            return out
        err, end, val = tokoracle.fields(impl[i])
        res = (i, err, consumed + end, val)
        if err != 1:
            break
        consumed += n
    i, err, end, val = res
    if ex["accept"]:
        if err != 0 or val != ex["val"]:
            out.append(("spec", i, "nesting %d < limit %d must be accepted with value %s: got status %d value %s" % (ex["nest"], ex["D"], ex["val"], err, val)))
    else:
        if err != 2:
            out.append(("spec", i, "nesting %d >= limit %d must fail with 'nesting too deep' (2): got status %d" % (ex["nest"], ex["D"], err)))
        elif end != ex["deep"]:
            out.append(("spec", i, "depth error reported at offset %d, the first value enclosed by %d containers starts at %d" % (end, ex["D"], ex["deep"])))
    return out


def docs(rng, tier):
    for D in range(1, 41 if tier == "thorough" else 13):
        for nest in range(max(0, D - 2), D + 4):
            for _ in range(2 if tier == "quick" else 6):
                yield D, tokgen.nested(rng, nest)
    for D in (1, 2, 3, 5, 32):
        for _ in range(6 if tier == "quick" else 40):
            yield D, tokgen.ttext(tokgen.tdoc(rng, 0, rng.choice([D - 1, D, D + 1, D + 2]), 3))
    # limits above the default, not powers of two (a level stack grown on demand has to stop at the limit, not at its
    # own capacity), with documents nested just below, at and a little beyond the limit
    for D in ((33, 40, 65, 100, 129) if tier == "quick" else (33, 34, 40, 48, 63, 64, 65, 96, 100, 127, 128, 129, 200, 257)):
        for nest in (D - 2, D - 1, D, D + 1, D + 3, D + 7):
            yield D, tokgen.nested(rng, nest)
    for D in (1, 2, 32):
        yield D, b"[" * 1000 + b"]" * 1000
        yield D, b'{"a":' * 500 + b"1" + b"}" * 500
    if tier == "thorough":
        yield 32, b"[" * 100000
        yield 3, b'[{"k":[' * 30000


def big_doc(rng, nest, shape):
    """a document of exactly `nest` levels whose answers are computed here (the Lean specification oracle is too slow
    beyond a few hundred levels): every level is `[` or `{"k":` (+ white space), the innermost value a scalar or an empty
    container.  Returns (text, answer-for-limit-D function)."""
    openers, kinds = [], []
    for i in range(nest):
        if shape == "arr-then-obj":
            obj = i >= nest // 2
        elif shape == "obj-then-arr":
            obj = i < nest // 2
        else:
            obj = rng.chance(0.5)
        w = rng.choice([b"", b"", b" ", b"\n"])
        openers.append((b'{"k":' if obj else b"[") + w)
        kinds.append(obj)
    leaf, leafdump = rng.choice([(b"1", "i1"), (b"[]", "[]"), (b"{}", "{}"), (b"null", "n")])
    text = b"".join(openers) + leaf + b"".join(b"}" if o else b"]" for o in reversed(kinds))
    dump = "".join("{6b:" if o else "[" for o in kinds) + leafdump + "".join("}" if o else "]" for o in reversed(kinds))

    def answer(D):
        deep = None
        if nest >= D:
            deep = sum(len(o) for o in openers[:D])
        return {"valid": True, "nest": nest, "fits": True, "knf": True, "deep": deep, "dump": dump}
    return text, answer


def big_docs(rng, tier):
    # limits well above the default and above any fixed cap or allocation chunk an implementation might introduce; levels
    # entered through array elements and through object members (round-6 seeds C15-9, C15-10)
    plan = [(300, s) for s in ("arr-then-obj", "obj-then-arr", "mixed")] + [(600, "arr-then-obj"), (600, "mixed"), (1030, "obj-then-arr"),
            (12000, "mixed")]
    if tier == "thorough":
        plan += [(513, "mixed"), (2049, "arr-then-obj"), (20000, "obj-then-arr")]      # (the Lean model's level stack is a list: quadratic in the depth)
    for D, shape in plan:
        for nest in (D - 2, D - 1, D, D + 1):
            t, ans = big_doc(rng, nest, shape)
            yield D, t, ans(D)
    # limits whose level stack is gigabytes of (untouched, zero) address space: the byte count of the stack must not be
    # computed in a type narrower than size_t (round-7 seed C15-11: 2^27 levels x 32 bytes wraps an unsigned int)
    for D in (1 << 27, (1 << 27) + 3, 1 << 28):
        t, ans = big_doc(rng, rng.choice([3, 40, 700]), "mixed")
        yield D, t, ans(D)


def gen(rng, tier):
    items = list(docs(rng, tier))
    ans = tokoracle.ask_docs(items)
    for D, t, a in big_docs(rng, tier):
        items.append((D, t)); ans.append(a)
    for (D, t), a in zip(items, ans):
        if not a["valid"]:
            # unterminated hostile input: only safety matters (stack bounds under ASan); expect the depth error if it is deep enough
            yield {"lines": ["new %d 0" % D, "p " + hexs(t)], "keep": 2}
            continue
        accept = a["nest"] < D
        base = {"accept": accept, "nest": a["nest"], "D": D, "val": a["dump"], "deep": a["deep"]}
        if (D > 20 or len(t) < 40) and t.rstrip(b" \t\r\n")[-1:] in (b"]", b"}"):
            # (containers only: a bare number at top level is not complete before end of input)
            # the same limit handed to json_object_from_fd_ex
            yield {"lines": ["fdx %d %s" % (D, hexs(t))], "noshrink": True,
                   "expect_fdx": {"accept": accept, "val": a["dump"], "D": D, "nest": a["nest"]}}
        for flags in (0, 1):
            if flags == 1 and accept and not a["fits"]:
                continue            # strict mode rejects an integer beyond 64 bits (C01), whatever the depth
            ex = dict(base); ex["lines"] = [(1, len(t))]
            yield {"lines": ["new %d %d" % (D, flags), "pz " + hexs(t)], "keep": 2, "noshrink": True, "expect": ex}
        if len(t) <= 120:
            chunks = [t[i:i + 1] for i in range(len(t))] + [b" "]
            ex = dict(base); ex["lines"] = [(1 + k, len(c)) for k, c in enumerate(chunks)]
            yield {"lines": ["new %d 0" % D] + ["p " + hexs(c) for c in chunks], "keep": 1, "noshrink": True, "expect": ex}
    for bad in (0, -1, -2147483648):
        yield {"lines": ["new %d 0" % bad, "p 5b5d"]}
