"""C16: strict mode rejects every documented extension anywhere; default mode accepts it."""
import tokgen, tokoracle
from common import hexs

PROP = "C16"
HARNESS = "tok"
COMPONENT = "tok"
VARIANT = "asan"
NONTRIVIAL_MIN_TAGS = 3
RULE = ("grammar-generated documents (token lists, so every admissible position is known) x 8 extension kinds (comment /* */ and //, single-quoted "
        "string / member name, trailing comma, non-lowercase literal, raw control character in a string / name, superfluous leading zero, exponent "
        "without digits, trailing non-whitespace) x every position where the kind can be inserted (capped per document in quick) x three modes "
        "(default, STRICT, STRICT|ALLOW_TRAILING_CHARS); the base document's value comes from the Lean specification (Spec/Rfc8259 Doc.denote); "
        "non-trivial = >= 3 distinct model tags")
ASSUMPTIONS = ["allocation succeeds (C08)"]
TRUSTED = ["Spec/Rfc8259.lean for the value of the unmodified document", "the generator's notion of 'admissible position' for each extension kind (tools/props/c16.py)"]
MANIFEST = dict(
    text="Specification: Spec/Rfc8259X.lean - an RFC 8259 document in which comments (in every gap), trailing commas, single-quoted strings and member "
         "names, raw control characters inside strings and member names, literals with upper-case letters, and numbers with superfluous leading zeros "
         "and / or an exponent marker without digits (`XNum`) may occur any number of times at every position where they are syntactically possible "
         "(`XText`), with `erase` = the original RFC 8259 text and `XDoc.denote` = the value default mode returns. Theorems (Props/C16.lean) on the "
         "byte-driven tokener model, by two inductions over that type, for every document, every depth limit, no bound on size: "
         "`default_accepts_extensions` - default mode succeeds with `XDoc.denote`, end position = length; `default_value_is_original` / "
         "`default_same_value_as_original` - that value IS the value of the original document when no number carries a number extension; "
         "`default_value_same_numbers` / `default_same_numbers_as_original` - with leading zeros and digit-less exponents it is the same value up to the "
         "source text a double retains (`01.5` is the double 1.5 retaining \"01.5\"), unless a digit-less exponent turns an integer into a double (`1e`: "
         "not value-neutral, stated); `strict_rejects_extensions` - strict mode ends with an error status (never success / continue), no value, no undefined "
         "step, as soon as at least one of the seven forms occurs anywhere; `plain_is_rfc8259`; `extensions_reference` (both theorems outright for the "
         "reference libc). Trailing bytes after the value: `trailing_bytes` on whole documents (any RFC 8259 text followed by a non-space byte: STRICT fails "
         "with 'unexpected character', default and STRICT|ALLOW_TRAILING_CHARS return the value and the end of the text). Per-state theorems for every "
         "tokener state of the shape and every enclosing stack (`strict_control_in_string`, `strict_leading_zero_rejected`, `strict_trailing_rejected`, "
         "`trailing_accepted`, ...) remain. The differential run inserts all eight forms at every admissible position of every generated document in three "
         "modes and compares implementation, model and the specification's value of the base document.",
    note="Trusted: Lean kernel + propext/Classical.choice/Quot.sound; Spec/Rfc8259.lean + Spec/Rfc8259X.lean as the reading of 'valid document with an "
         "extension inserted'; hypotheses LibcSpec (as C01) and LibcSpecX (strtod reads a number with superfluous leading zeros completely and to the value "
         "of the number without them; it does not consume an exponent marker without digits) - both proved for the reference conversions (refLibc_ok, "
         "refLibc_x) and compared with glibc by the run; harness/tok.c + Driver/Tok.lean.",
    technique="Lean 4 proof (two inductions over an extended-document datatype: default accepts with the original value, strict rejects) + exhaustive-position correspondence run",
    design="6/C16")

STRICT, TRAIL = 1, 2


def variants(rng, toks, cap):
    """yield (kind, neutral, text, endpos) for single extensions inserted into the token list"""
    out = []
    n = len(toks)
    # comments at every token boundary
    for i in range(n + 1):
        for cm in (b"/*c*/", b"//c\n", b"/**/", b"/***/", b"/* * / ** */", b"/*a**/", b"/****/", b"// /* \n", b"/*//*/",
                   # bytes inside a comment that end or open something elsewhere: CR (a line comment ends at LF only), quotes,
                   # brackets, commas (round-7 seed C16-12)
                   b"//a\rb\n", b"// ] \r ,1\n", b"//\r\n", b"/*\r*/", b"//\"\n", b"/*]}*/", b"//\t'\x7f\n"):
            out.append(("comment", True, tokgen.ttext(toks[:i]) + cm + tokgen.ttext(toks[i:]), None))
    for i, (k, b) in enumerate(toks):
        pre, post = tokgen.ttext(toks[:i]), tokgen.ttext(toks[i + 1:])
        if k in ("string", "key") and b"'" not in b:
            out.append(("single-quote-" + k, True, pre + b"'" + b[1:-1].replace(b'\\"', b'"') + b"'" + post, None) if b'\\"' not in b else
                       ("single-quote-" + k, False, pre + b"'" + b[1:-1] + b"'" + post, None))
        if k in ("string", "key"):
            body = b[1:-1]
            # raw control byte at a boundary between items (never inside an escape sequence)
            pos = [j for j in range(len(body) + 1) if not _inside_escape(body, j)]
            j = rng.choice(pos)
            ctl = bytes([rng.choice([1, 8, 9, 10, 13, 0x1f])])
            out.append(("control-char-" + k, False, pre + b'"' + body[:j] + ctl + body[j:] + b'"' + post, None))
        if k == "close" and i > 0 and _nonempty_before(toks, i):
            out.append(("trailing-comma", True, pre + b"," + b + post, None))
            out.append(("trailing-comma", True, pre + b", " + b + post, None))
        if k == "literal":
            j = rng.randrange(len(b))
            out.append(("literal-case", True, pre + b[:j] + b[j:j + 1].upper() + b[j + 1:] + post, None))
            out.append(("literal-case", True, pre + b.upper() + post, None))
        if k == "number":
            neg = b.startswith(b"-")
            digits = b[1:] if neg else b
            isint = all(48 <= c <= 57 for c in digits)
            out.append(("leading-zero", isint, pre + (b"-" if neg else b"") + b"0" + digits + post, None))
            if b"e" not in b and b"E" not in b:
                out.append(("empty-exponent", False, pre + b + rng.choice([b"e", b"E", b"e+", b"E-"]) + post, None))
    base = tokgen.ttext(toks)
    # (a lone '/' is left out: in default mode it opens a comment, i.e. it is a malformed instance of another extension)
    for tr in (b"x", b"1", b"{}", b"]", b"\"s\"", b"\x01", b"null"):
        ends_in_number = bool(toks) and toks[-1][0] == "number"
        sep = rng.choice([b" ", b"\n"] if ends_in_number else [b"", b" ", b"\n"])     # a number needs a delimiter: 1 followed by 1 is 11
        out.append(("trailing", True, base + sep + tr, ("trail", len(tr))))
    if len(out) > cap:
        keep = rng.sample(out, cap)
        kinds = {v[0] for v in keep}
        keep += [v for v in out if v[0] not in kinds][:8]
        out = keep
    return out


def _inside_escape(body, j):
    """is position j inside a backslash escape sequence of body?"""
    i = 0
    while i < len(body):
        if body[i] == 0x5c:
            ln = 6 if body[i + 1:i + 2] == b"u" else 2
            if i < j < i + ln:
                return True
            i += ln
        else:
            # do not split a multi-byte UTF-8 scalar either
            c = body[i]
            ln = 1 if c < 0x80 else 2 if c < 0xe0 else 3 if c < 0xf0 else 4
            if i < j < i + ln:
                return True
            i += ln
    return False


def _nonempty_before(toks, i):
    j = i - 1
    while j >= 0 and toks[j][0] == "ws":
        j -= 1
    return j >= 0 and toks[j][0] != "open" and toks[j][0] != "comma"


def check_case(case, impl, model):
    out = []
    ex = case.get("expect")
    if not ex:
        return out
    mode, kind = ex["mode"], ex["kind"]
    if mode == "strict-chunked":
        # byte-wise feeding: the verdict is that of the first call that does not ask for more
        for i in range(1, len(case["lines"])):
            if i >= len(impl) or " ## " not in impl[i]:
                return out
            err, end, val = tokoracle.fields(impl[i])
            if err != 1:
                break
        if err in (0, 1):
            out.append(("spec", i, "strict mode, input fed byte by byte: the extension '%s' was accepted (status %d, value %s)" % (kind, err, val)))
        return out
    if mode == "default-chunked":
        for i in range(1, len(case["lines"])):
            if i >= len(impl) or " ## " not in impl[i]:
                return out
            err, end, val = tokoracle.fields(impl[i])
            if err != 1:
                break
        if err != 0:
            out.append(("spec", i, "default mode, input cut into several calls: the extension '%s' was rejected (status %d)" % (kind, err)))
        elif ex["neutral"] and val != ex["val"]:
            out.append(("spec", i, "default mode, input cut into several calls: '%s' accepted but the value %s differs from the original document's %s" % (kind, val, ex["val"])))
        return out
    i = ex.get("at", 1)
    if i >= len(impl) or " ## " not in impl[i]:
        return out
    err, end, val = tokoracle.fields(impl[i])
    if mode == "strict":
        if err in (0, 1):
            out.append(("spec", i, "strict mode accepted the extension '%s' (status %d, value %s)" % (kind, err, val)))
    elif mode == "strict-trailing":
        # "where the value ended": between the last byte of the value and the first trailing byte (white space in between is skipped)
        if err != 0 or val != ex["val"] or not (ex["valend"] <= end <= ex["trailstart"]):
            out.append(("spec", i, "STRICT|ALLOW_TRAILING_CHARS must accept trailing bytes and report the end of the value (%d..%d) with value %s: got status %d end %d value %s"
                        % (ex["valend"], ex["trailstart"], ex["val"], err, end, val)))
    else:
        if err != 0:
            out.append(("spec", i, "default mode rejected the extension '%s' (status %d)" % (kind, err)))
        elif ex["neutral"] and val != ex["val"]:
            out.append(("spec", i, "default mode accepted '%s' but the value %s differs from the original document's %s" % (kind, val, ex["val"])))
    return out


def gen(rng, tier):
    ndocs = 110 if tier == "quick" else 1500
    cap = 30 if tier == "quick" else 400
    docs = []
    for _ in range(ndocs):
        toks = tokgen.tdoc(rng, 0, rng.choice([0, 1, 2, 3]), 3)
        lead, trail = tokgen.ws(rng), tokgen.ws(rng)
        toks = ([("ws", lead)] if lead else []) + toks + ([("ws", trail)] if trail else [])
        docs.append(toks)
    ans = tokoracle.ask_docs([(32, tokgen.ttext(t)) for t in docs])
    for toks, a in zip(docs, ans):
        if not a["valid"] or not a["fits"] or not a["knf"]:
            continue
        base = tokgen.ttext(toks)
        valend = len(base.rstrip(b" \t\r\n"))
        sig = [t for t in toks if t[0] != "ws"]
        container_doc = bool(sig) and sig[0][0] == "open" and sig[-1][0] == "close"
        # the base document itself: accepted in all three modes with the specified value
        for flags, mode in ((0, "default"), (STRICT, "base-strict"), (STRICT | TRAIL, "base-strict")):
            yield {"lines": ["new 32 %d" % flags, "pz " + hexs(base)], "keep": 2, "noshrink": True,
                   "expect": {"mode": "default", "kind": "none", "neutral": True, "val": a["dump"]}}
            pre = rng.choice([b"['ab", b"{'k", b'["a', b"{'a':'b", b"[1,'", b"/* c"])
            yield {"lines": ["new 32 %d" % flags, "p " + hexs(pre), "reset", "pz " + hexs(base)], "keep": 3, "noshrink": True,
                   "expect": {"mode": "default", "kind": "none", "neutral": True, "val": a["dump"], "at": 3}}
        for kind, neutral, text, how in variants(rng, toks, cap):
            if how is not None:
                yield {"lines": ["new 32 %d" % (STRICT | TRAIL), "pz " + hexs(text)], "keep": 2, "noshrink": True,
                       "expect": {"mode": "strict-trailing", "kind": kind, "val": a["dump"], "valend": valend, "trailstart": len(text) - how[1]}}
            yield {"lines": ["new 32 %d" % STRICT, "pz " + hexs(text)], "keep": 2, "noshrink": True,
                   "expect": {"mode": "strict", "kind": kind}}
            if kind not in ("comment", "trailing") and container_doc:
                # an extension inside a container is inside the value: allowing bytes *after* the value does not allow it
                # (round-8 seed C16-13: trailing commas accepted under exactly STRICT|ALLOW_TRAILING_CHARS)
                yield {"lines": ["new 32 %d" % (STRICT | TRAIL), "pz " + hexs(text)], "keep": 2, "noshrink": True,
                       "expect": {"mode": "strict", "kind": kind}}
            # byte-wise feeding: only for extensions inside the value (a call that completes the value at a chunk
            # boundary legitimately succeeds before it can see what follows)
            if len(text) <= 40 and 0 not in text and kind not in ("comment", "trailing"):
                yield {"lines": ["new 32 %d" % STRICT] + ["p " + hexs(text[j:j + 1]) for j in range(len(text))] + ["p 00"],
                       "keep": 1, "noshrink": True, "expect": {"mode": "strict-chunked", "kind": kind}}
            yield {"lines": ["new 32 0", "pz " + hexs(text)], "keep": 2, "noshrink": True,
                   "expect": {"mode": "default", "kind": kind, "neutral": neutral, "val": a["dump"]}}
            if rng.chance(0.25):
                # the same verdicts from a tokener that was used before: a parse abandoned inside a token (single- or
                # double-quoted string or name, comment, number, escape), then json_tokener_reset (round-6 seed C16-11)
                pre = rng.choice([b"['ab", b"{'k", b"'x\\", b'["a', b"/* c", b"[1e", b'"\\ud83d', b"{'a':'b", b"[1,'"])
                yield {"lines": ["new 32 0", "p " + hexs(pre), "reset", "pz " + hexs(text)], "keep": 3, "noshrink": True,
                       "expect": {"mode": "default", "kind": kind, "neutral": neutral, "val": a["dump"], "at": 3}}
                yield {"lines": ["new 32 %d" % STRICT, "p " + hexs(pre), "reset", "pz " + hexs(text)], "keep": 3, "noshrink": True,
                       "expect": {"mode": "strict", "kind": kind, "at": 3}}
            # default mode accepts the extension however the text is cut into calls (byte by byte, and cut once at a
            # random position): the token scratch state that default mode edits - e.g. the trimmed digit-less exponent -
            # has to survive a chunk boundary
            if len(text) <= 60 and 0 not in text and kind != "trailing":
                yield {"lines": ["new 32 0"] + ["p " + hexs(text[j:j + 1]) for j in range(len(text))] + ["p 00"],
                       "keep": 1, "noshrink": True,
                       "expect": {"mode": "default-chunked", "kind": kind, "neutral": neutral, "val": a["dump"]}}
            if len(text) >= 2 and 0 not in text and kind != "trailing":
                cut = rng.randrange(1, len(text))
                yield {"lines": ["new 32 0", "p " + hexs(text[:cut]), "p " + hexs(text[cut:]), "p 00"],
                       "keep": 1, "noshrink": True,
                       "expect": {"mode": "default-chunked", "kind": kind, "neutral": neutral, "val": a["dump"]}}
