"""C03: incremental parsing is independent of how the input is split into calls."""
import tokgen
from common import hexs

PROP = "C03"
HARNESS = "tok"
COMPONENT = "tok"
VARIANT = "asan"
NONTRIVIAL_MIN_TAGS = 3
RULE = ("texts (grammar output, extension-bearing, malformed, with NUL and invalid UTF-8, number/escape/surrogate/literal/comment heavy) x "
        "flag sets x every 2-split (and every 3-split for short texts, random n-splits, byte-wise), each compared on the implementation with "
        "the one-shot parse of the same bytes by a fresh parser; multi-document streams resumed at the reported end position compared with a "
        "fresh parser on the remainder; tokener internals compared with the Lean model after every call; non-trivial = >= 3 distinct model tags")
ASSUMPTIONS = ["allocation succeeds (C08)"]
TRUSTED = ["glibc strtod/strtoll/strtoull"]
MANIFEST = dict(
    text="Lean 4 theorems split_two / split_many over the byte-driven model of json_tokener_parse_ex: for every byte string (valid or not), "
         "every partition into chunks, every flag word, every tokener state and every libc behaviour, whenever a call reports 'continue' the "
         "following call is identical (status, error code, value, tokener state, end position shifted by the earlier lengths) to one call on the "
         "concatenation. Proof: the loop over A++B is the loop over A continued over B (run_append); re-initialising the per-call locals is invisible "
         "because the number-scanner flags are a function of the saved text (NumInv, preserved by every dispatch), no UTF-8 sequence is pending at a "
         "'continue', and `c` is only tested for NUL. The model is tied to the code by the differential run, which also evaluates the property "
         "directly on the implementation (split vs one-shot on every generated split). The stream clause is the theorem `stream_resume_like_new` "
         "(+ `stream_next_document`): after any call that returned a value, from any reachable tokener, every later sequence of calls returns what a "
         "tokener fresh from json_tokener_new_ex returns (simulation relation Eqv over the scratch fields that are dead between values; invariant "
         "HsInv: no surrogate is pending outside the \\\\u states); the differential run also resumes generated streams at the reported end position.",
    note="Trusted: Lean kernel + propext/Classical.choice/Quot.sound; tools/extract; harness/tok.c + Driver/Tok.lean; the hand-written model "
         "(compared with the implementation field by field after every call).",
    technique="Lean 4 proof (simulation between split and one-shot runs; invariant NumInv) + model/implementation correspondence run",
    design="6/C03")


def fields(line):
    sp = line.split(" ## ")[0].split(" ")
    return int(sp[0]), int(sp[1]), sp[2]


def check_case(case, impl, model):
    out = []
    sp = case.get("split")
    if sp:
        first, nchunks, ones = sp["first"], sp["n"], sp["oneshot"]
        consumed = 0
        for k in range(nchunks):
            if first + k >= len(impl) or " ## " not in impl[first + k]:
                break
            err, end, val = fields(impl[first + k])
            if err != 1 or k == nchunks - 1:
                j = ones[k]
                if j < len(impl) and " ## " in impl[j]:
                    e1, end1, v1 = fields(impl[j])
                    if (err, consumed + end, val) != (e1, end1, v1):
                        out.append(("spec", first + k, "split parse (status %d, end %d+%d, value %s) differs from the one-shot parse of the same bytes "
                                    "(status %d, end %d, value %s)" % (err, consumed, end, val, e1, end1, v1)))
                break
            consumed += sp["lens"][k]
    st = case.get("stream")
    if st:
        for (a, b) in st:
            # only meaningful when the document before the resume point was parsed successfully
            if a >= 1 and (" ## " not in impl[a - 1] or fields(impl[a - 1])[0] != 0):
                continue
            if a < len(impl) and b < len(impl) and impl[a].split(" ## ")[0] != impl[b].split(" ## ")[0]:
                out.append(("spec", a, "resuming the stream at the reported end differs from a fresh parser on the remainder: %r vs %r" % (impl[a], impl[b])))
                break
    return out


SPLITTY = [b'[1e-5, -1.5E+3, 12.25, -0]', b'"\\ud83d\\ude00\\u00e9\\n"', b'{"a\\u0041":[true,false,null]}', b'[1, /* two */ 2] // x\n',
           b'-Infinity', b'[NaN, Infinity, -Infinity]', b'"\xf0\x9f\x98\x80\xc3\xa9"', b'[123456789012345678901234567890]',
           b'1-2', b'1.+5', b'-1Infinity', b'[1-2]', b'1e5-1', b'"\\ud800\\u0041"', b'"\\ud800x"', b'{"k":-0.0e+0}', b"'a\\'b'",
           b'nullx', b'TRUE', b'[00,-01,01.5]', b'/**/1', b'"a\x00b"', b'1 2 3', b'{}[]', b'"\\udbff\\udfff"',
           b'[1e]', b'[2e-,3E+ ]', b'{"a":1.5e}', b'1e ', b'-0E- ', b'[1e+]', b"{'k':[1,],}", b'[tRuE,NULL]', b'["a\x01b"]',
           b'[1 /*c*/ , 2 //d\n ]', b'[0e, 00e+]', b'[1.5E3e]', b'1.5e3e2 ', b'[1.5e3.2]', b'"\\ud83d\\uDD1G"', b'"\\ud83d\\uDT1E"',
           b'"\\ud83d\\ud83d\\ude00"', b'"\\u0x41"', b'"\\u0X1f"', b'"\\u+041"', b'"\\u 041"', b'"\\u-041"', b'"\\ud83d\\u0xde"', b'"a\xe0', b'"\xe0\x9f\x80"', b'"\xed\xa0\x80"', b'"\xf4\x90\x80\x80"']


def split_case(rng, data, cuts, depth, flags):
    chunks, prev = [], 0
    for c in cuts:
        chunks.append(data[prev:c]); prev = c
    chunks.append(data[prev:])
    lines = ["new %d %d" % (depth, flags)]
    first = len(lines)
    lines += ["p " + hexs(c) for c in chunks]
    ones = []
    acc = b""
    for c in chunks:
        acc += c
        lines.append("new %d %d" % (depth, flags))
        ones.append(len(lines))
        lines.append("p " + hexs(acc))
    return {"lines": lines, "keep": 1, "noshrink": True, "split": {"first": first, "n": len(chunks), "oneshot": ones, "lens": [len(c) for c in chunks]}}


def some_text(rng):
    k = rng.random()
    if k < 0.15:
        return rng.choice(SPLITTY) + (b" " if rng.chance(0.5) else b"")
    if k < 0.4:
        # words over the alphabets of numbers, \\u escapes and UTF-8 lead / continuation bytes (round-6 seeds C03-10, C03-11, C04-10)
        return tokgen.torture(rng)
    t = tokgen.gen_text(rng, 4)
    if k < 0.6:
        return t
    if k < 0.9:
        return tokgen.mutate(rng, t)
    return tokgen.random_bytes(rng, rng.choice([3, 8, 20]))


def gen(rng, tier):
    ntexts = 260 if tier == "quick" else 4000
    fixed = [(t + sfx, fl) for t in SPLITTY for sfx in (b"", b" ") for fl in ((0, 1) if tier == "quick" else tokgen.FLAGSETS)]
    for it in range(len(fixed) + ntexts):
        if it < len(fixed):
            # every fixed text, with and without a byte after it, in default and strict mode: every single split
            data, flags = fixed[it]
            depth = 32
        else:
            data = some_text(rng)[:48 if tier == "quick" else 200]
            depth = rng.choice([32, 32, 3, 2])
            flags = rng.choice(tokgen.FLAGSETS)
        n = len(data)
        for k in range(0, n + 1):
            yield split_case(rng, data, [k], depth, flags)
        if n <= 14:
            for a in range(0, n + 1):
                for b in range(a, n + 1):
                    yield split_case(rng, data, [a, b], depth, flags)
        for _ in range(2):
            cuts = sorted(rng.randrange(0, n + 1) for _ in range(rng.randrange(2, 6)))
            yield split_case(rng, data, cuts, depth, flags)
        yield split_case(rng, data, list(range(1, n)), depth, flags)
    # a token of several KiB earlier in the document (the tokener's scratch buffer has grown), then a cut inside a later
    # string, number or literal: the part of the token already consumed lives in that buffer (round-8 seed C03-13)
    for big in ((4100,) if tier == "quick" else (4090, 4100, 5000, 9000)):
        for tail in (b'"abcdefgh"', b"12345678", b"true", b"null", b"-1.5e10", b'{"k":"vvvv"}', b'"a\\nb"'):
            head = b'["' + b"x" * big + b'",'
            data = head + tail + b"]"
            for k in range(len(head), len(data) + 1):
                yield split_case(rng, data, [k], 32, 0)
            yield split_case(rng, data, [len(head) // 2, len(head) + len(tail) // 2], 32, 1)
        data = b'"' + b"y" * big + b'"'
        for k in (big // 2, big - 1, big, big + 1):
            yield split_case(rng, data, [k], 32, 0)
    # streams of several documents resumed at the reported end
    for _ in range(150 if tier == "quick" else 3000):
        flags = rng.choice([0, 2, 3, 16])
        docs = [tokgen.gen_text(rng, 3).strip() or b"1" for _ in range(rng.randrange(2, 5))]
        sep = rng.choice([b" ", b"\n", b"", b" "])
        data = sep.join(docs) + b" "
        lines = ["new 32 %d" % flags]
        stream = []
        # the harness cannot slice at the reported end itself, so the generator walks the stream with a
        # reference json module only to find candidate ends; every candidate is verified by the twin comparison
        pos = 0
        import json as _j
        dec = _j.JSONDecoder()
        txt = data.decode("latin-1")
        cands = []
        while pos < len(txt):
            while pos < len(txt) and txt[pos] in " \t\r\n":
                pos += 1
            if pos >= len(txt):
                break
            try:
                _, e = dec.raw_decode(txt, pos)
            except Exception:
                break
            cands.append(e)
            pos = e
        prev = 0
        for e in cands[:-1]:
            lines.append("p " + hexs(data[prev:]))      # tokener continues after a success
            a = len(lines) - 1
            prev = e
        # compare: continued tokener on data[e:] vs fresh tokener on data[e:]
        lines = ["new 32 %d" % flags]
        prev = 0
        for e in cands[:-1]:
            lines.append("p " + hexs(data[prev:]))
            prev = e
            lines.append("p " + hexs(data[prev:]))
            a = len(lines) - 1
            lines.append("new 32 %d" % flags)
            lines.append("p " + hexs(data[prev:]))
            stream.append((a, len(lines) - 1))
            # bring the continued tokener back: re-create it in the same post-success state
            lines.append("new 32 %d" % flags)
            lines.append("p " + hexs(data[prev:]))
            break
        if stream:
            yield {"lines": lines, "keep": 1, "noshrink": True, "stream": stream}
