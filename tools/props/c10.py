"""C10 numeric accessors / mutators: generator for the correspondence run
(model: lean/JsonC/Model/Num.lean, spec: lean/JsonC/Spec/Coerce.lean, harness: harness/num.c)."""
import re, struct
from common import hexs

PROP = "C10"
HARNESS = "num"
COMPONENT = "num"
TIE = ["TranslatedNum"]      # Lemmas/TranslatedNum.lean: Model/Num.lean intInc = json_object_int_inc as translated by tools/extract/c2lean.py
VARIANT = "asan"
SLICE = 1500
TIMEOUT = 1800
RULE = ("nodes of every kind (NULL, boolean, int64-typed and uint64-typed int, double, string, array, object) read through all five "
        "accessors: the boundary lattice (every bound of every target type +-{0,1,2,ulp,0.5}: +-2^31, +-2^63, 2^64, 2^53, subnormals, "
        "+-inf, NaNs, +-0), random 64-bit patterns as int64/uint64/double (uniform bits and exponent-focused), numeric-looking / "
        "whitespace-prefixed / signed / overflowing / float / hex-float / junk / NUL-containing strings; json_object_int_inc on all "
        "(value, increment) boundary pairs, random pairs and short increment histories; every setter on every node kind followed by the "
        "own-type getter; json_parse_int64/uint64 directly; and the Lean libc references (strtoll, strtoull, strtod, int->double) against "
        "the real libc.  non-trivial = the model run of the case hit >= 2 distinct coverage tags; distinct = distinct op text")
ASSUMPTIONS = ["json_bool values are 0/1 (json_object_new_boolean/set_boolean are driven with 0 and 1 only)",
               "C locale (strtod/strtoll/isspace)",
               "x86-64 / glibc: (double)int64 rounds to nearest even; uint64 -> int64 conversions inside int_inc are only reached in range",
               "errno is compared as a class (0 / ERANGE / EINVAL), with errno = 0 before the call as the header prescribes"]
TRUSTED = ["glibc strtoll/strtoull/strtod (their Lean references are compared with them on every run: `libc` ops)",
           "IEEE-754 decoding of a 64-bit pattern (Dbl.decode)"]

# Deviations of the code from json_object.h that are recorded as known findings (KNOWN_FINDINGS.json
# is maintained by the main session from this list): the model takes the same branch and logs `tag`.
KNOWN = [
    dict(property="C10", id="C10-getdouble-string-overflow", tag="num.get_double.string-overflow-zero",
         site="json_object.c json_object_get_double, case json_type_string: "
              "`if ((HUGE_VAL == cdouble || -HUGE_VAL == cdouble) && (ERANGE == errno)) cdouble = 0.0;`",
         witness="getd s3165393939   (json_object_get_double of the string node \"1e999\": 0.0, errno ERANGE)",
         description="json_object_get_double of text too big for a double returns 0.0 with ERANGE; json_object.h documents "
                     "\"the closest infinity with errno set to ERANGE\" (tests/test_set_value.c pins 0.0)"),
    dict(property="C10", id="C10-getdouble-array-doc", tag="num.get_double.array-doc",
         site="json_object.c json_object_get_double, `default: errno = EINVAL; return 0.0;` reached for json_type_array",
         witness="getd []   /   getd [d3ff8000000000000]   /   getd [i1,i2]   (all: 0.0, errno EINVAL)",
         description="json_object_get_double of an array returns 0.0 with EINVAL; json_object.h documents [] = 0 without error, "
                     "[x] = the conversion of x, longer arrays = NaN with EINVAL (paragraph not implemented)"),
]

# Defects found while building this check (each with the failing input); the first two were repaired by
# `fix:` commits in /repo (5dafb0c, 63b70b6) and their clauses/tags removed from the model, the last two are KNOWN above.
DEFECTS = [
    dict(tag="num.parse_uint64.ws-minus-wraps (fixed, tag removed)",
         input="get s092d31   (string node \"\\t-1\"; also \"\\n-1\", \" \\t-5\", parseu64 092d31)",
         observed="json_object_get_uint64 = 18446744073709551615, errno 0; json_parse_uint64(\"\\t-1\") = 0 with *retval = UINT64_MAX",
         expected="0 (negative text has no uint64 conversion; never a wrapped value), json_parse_uint64 returns 1",
         suggested_fix="json_util.c json_parse_uint64: skip white space with isspace((unsigned char)*buf) (what strtoull skips) "
                       "instead of only ' ' before the `if (*buf == '-') return 1;` test"),
    dict(tag="num.parse_uint64.neg-errno-unset (fixed, tag removed)",
         input="get s2d31   (string node \"-1\"; any text whose first non-blank byte is '-', except a negative zero)",
         observed="json_object_get_uint64 = 0 with errno 0 (json_parse_uint64 returns 1 before setting errno)",
         expected="errno EINVAL (\"If no conversion exists then 0 is returned and errno is set to EINVAL\") or ERANGE",
         suggested_fix="json_util.c json_parse_uint64: `if (*buf == '-') { errno = EINVAL; return 1; }`"),
    dict(tag="num.get_double.string-overflow-zero",
         input="getd s3165393939   (string node \"1e999\"; any text whose value overflows a double)",
         observed="json_object_get_double = 0.0, errno ERANGE",
         expected="+infinity (resp. -infinity), errno ERANGE: json_object.h \"If the value is too big to fit in a double, then the value "
                  "is set to the closest infinity with errno set to ERANGE\"",
         suggested_fix="json_object.c json_object_get_double: drop the `cdouble = 0.0` on (+-HUGE_VAL && ERANGE), or correct the header "
                       "(the unedited suite pins 0.0: known finding)"),
    dict(tag="num.get_double.array-doc",
         input="getd []   /   getd [d3ff8000000000000]   /   getd [i1,i2]",
         observed="0.0 with errno EINVAL for every array",
         expected="json_object.h: \"Arrays of length 0 are interpreted as 0 (with no error flags set). Arrays of length 1 are effectively "
                  "cast to the equivalent object ... All other arrays set the error to EINVAL & return NaN\"",
         suggested_fix="implement the documented array rule in json_object_get_double, or delete the paragraph from json_object.h "
                       "(known finding)"),
]

MANIFEST = dict(
    text="Lean 4 theorems over a checked-C model of json_object_get_int/_get_int64/_get_uint64/_get_double/_get_boolean, the five "
         "setters, json_object_int_inc and json_parse_int64/uint64: for every node kind and every int64 / uint64 value, every 64-bit "
         "double pattern (decoded exactly to +-num/den | inf | nan) and every string, no accessor performs an undefined double->integer "
         "conversion or a signed overflow (get*_no_fault, inc_no_fault); each returns clamp lo hi (truncToZero v) with errno ERANGE exactly "
         "when v lies outside the type, the documented NaN sentinels with EINVAL, and for strings the clamped exact value of the strtoll "
         "grammar, a negative text read as uint64 being 0 with EINVAL whatever white space precedes the sign (get*_spec; json_object_get_double "
         "is proved up to two tagged deviations from the header - overflowing text, arrays - each a known finding with a decided "
         "counter-example); set-then-get in the own type is the identity (set_get_roundtrip); int_inc adds exactly, "
         "saturating at INT64_MIN/UINT64_MAX and switching representation exactly when needed (inc_exact); (double)int is exact below "
         "2^53 and within half an ulp above.  The comparison operators guarding the casts are regenerated from the source on every run and "
         "consulted by the model; model, spec and the ASan/UBSan(float-cast-overflow) build of the code are compared on the boundary "
         "lattice, random 64-bit patterns and generated strings, and the Lean strtoll/strtoull/strtod references against glibc.",
    note="Trusted: Lean kernel + propext/Classical.choice/Quot.sound; tools/extract; the differential harness; glibc strtoll/strtoull/"
         "strtod enter the theorems as parameters constrained by named hypotheses (their executable references are compared with glibc "
         "on every run). json_bool is taken to be 0/1. The model is hand-written: theorems are about the model, the correspondence run "
         "is testing. Tie by translation (new): json_object_int_inc is translated from clang's typed AST of the current source into Lean on every run (tools/extract/c2lean.py -> Generated/Translated.lean; the int64 / uint64 union as its 64-bit pattern, enum values as clang evaluates them, signed overflow = fault) and Lemmas/TranslatedNum.lean proves that Model/Num.lean's intInc computes the same return value, representation tag and bit pattern for every node and every increment (intInc_agrees, intInc_other); json_parse_int64 likewise (parseInt64_agrees: given the libc model's answer for strtoll, same return code, *retval written exactly when something was consumed, same errno) and json_object_get_boolean (getBoolean_string: true exactly for a non-empty string in either representation of the length field, getBoolean_int, getBoolean_bool, getBoolean_other; the double branch is an opaque floating-point verdict); rebuilt and axiom-audited with the property theorems.",
    technique="Lean 4 proof (case analysis over node kinds and decoded doubles, omega) + model/implementation correspondence run + agreement theorems with Lean definitions translated from the current C source (clang AST) on every run",
    design="6/C10")

M64 = (1 << 64) - 1
I64MAX = (1 << 63) - 1
I64MIN = -(1 << 63)


# ------------------------------------------------------------------ comparison with alternatives
_NAN = r"(?:[7f]ff(?!0{13})[0-9a-f]{13})"


def _spec_regex(s):
    out = []
    for tok in re.split(r"(<[^>]*>|\*)", s):
        if tok == "*":
            out.append(r"[^ :]*")
        elif tok.startswith("<") and tok.endswith(">"):
            alts = [(_NAN if a == "nan" else re.escape(a)) for a in tok[1:-1].split("|")]
            out.append("(?:" + "|".join(alts) + ")")
        else:
            out.append(re.escape(tok).replace("=nan:", "=" + _NAN + ":"))
    return "".join(out)


def spec_matches(spec, impl_spec_part):
    if spec in ("", "*") or spec == impl_spec_part:
        return True
    if "<" not in spec and "*" not in spec and "nan" not in spec:
        return False
    if spec.startswith("nan "):
        spec = "<nan>" + spec[3:]
    return re.fullmatch(_spec_regex(spec), impl_spec_part) is not None


def compare_line(case, i, il, m, s, tags):
    ispec = il.split(" ## ")[0]
    if not spec_matches(s, ispec):
        return ("spec", "implementation differs from the specification")
    if il != m:
        if case["lines"][i].startswith("libc "):
            return ("model", "the Lean libc reference differs from the C library")
        kind = "spec" if ispec != m.split(" ## ")[0] and s in ("", "*") else "model"
        return (kind, "implementation differs from the Lean model")
    return None


# ------------------------------------------------------------------ value lattices
def d2b(x):
    return struct.unpack("<Q", struct.pack("<d", x))[0]


def int_lattice():
    s = set()
    for b in (0, 1 << 7, 1 << 8, 1 << 15, 1 << 16, 1 << 31, 1 << 32, 1 << 52, 1 << 53, 1 << 54, 1 << 62, 1 << 63, 1 << 64,
              (1 << 63) + (1 << 10), (1 << 64) - (1 << 10), (1 << 63) + (1 << 62)):
        for d in (-3, -2, -1, 0, 1, 2, 3):
            s.add(b + d)
            s.add(-b + d)
    # values whose (double) conversion rounds: half-way cases and their neighbours, every binade above 2^53
    for k in range(1, 12):
        base = 1 << (52 + k)
        half = 1 << (k - 1)
        for m in (0, 1, 2, 3):
            for d in (-1, 0, 1):
                s.add(base + m * (1 << k) + half + d)
                s.add(-(base + m * (1 << k) + half + d))
        s.add((base << 1) - half)
        s.add((base << 1) - half - 1)
        s.add((base << 1) - 1)
    return sorted(s)


LAT = int_lattice()
LAT_I64 = [v for v in LAT if I64MIN <= v <= I64MAX]
LAT_U64 = [v for v in LAT if 0 <= v <= M64]


def dbl_lattice():
    s = set()
    for b in (0.0, 1.0, 0.5, 2147483647.0, 2147483648.0, 2147483649.0, 4294967296.0, 2.0 ** 52, 2.0 ** 53, 2.0 ** 62, 2.0 ** 63, 2.0 ** 64,
              2.0 ** 65, 2.0 ** 31 - 0.5, 2.0 ** 31 + 0.5, 2.0 ** 31 - 1.5, 0.99999, 1e-300, 1e300, 2.0 ** 32 - 1, 2.0 ** 32 + 1):
        for sign in (1.0, -1.0):
            x = d2b(sign * b)
            for d in range(-4, 5):
                s.add((x + d) & M64)
    # around INT32 bounds with fractional parts
    for v in (2147483646, 2147483647, 2147483648, -2147483647, -2147483648, -2147483649):
        for f in (0.0, 0.25, 0.5, 0.75, 0.999999):
            s.add(d2b(v + f))
            s.add(d2b(v - f))
    # subnormals, extremes, infinities, NaNs, zeros
    for x in (0, 1, 2, 0x000fffffffffffff, 0x0010000000000000, 0x0010000000000001, 0x7fefffffffffffff, 0x7ff0000000000000,
              0x7ff0000000000001, 0x7ff8000000000000, 0x7ff8000000000001, 0x7fffffffffffffff, 0x7ff4000000000000):
        s.add(x)
        s.add(x | (1 << 63))
    # every exponent with an empty, a full and an alternating fraction
    for e in range(0, 2048, 1):
        if 1023 - 3 <= e <= 1023 + 66 or e < 3 or e > 2044 or e % 97 == 0:
            for fr in (0, 1, (1 << 52) - 1, 0x5555555555555, 1 << 51):
                s.add((e << 52) | fr)
                s.add((1 << 63) | (e << 52) | fr)
    return sorted(s)


DLAT = dbl_lattice()

WS = [b" ", b"\t", b"\n", b"\v", b"\f", b"\r"]


def str_lattice():
    out = []
    ints = [0, 1, 7, 42, 2147483647, 2147483648, 2147483649, 4294967296, I64MAX - 1, I64MAX, I64MAX + 1, M64 - 1, M64, M64 + 1,
            10 ** 19, 10 ** 20, 99999999999999999999, 10 ** 30]
    for v in ints:
        for sg in (b"", b"-", b"+"):
            t = sg + str(v).encode()
            out.append(t)
            for w in (b" ", b"   ", b"\t", b"\n", b" \t", b"\t ", b"\r\n", b"\v", b"\f"):
                out.append(w + t)
            out.append(t + b" ")
            out.append(t + b"x")
            out.append(t + b".5")
            out.append(b"0" * 3 + t if not sg else sg + b"000" + str(v).encode())
    out += [b"", b" ", b"-", b"+", b"- 1", b"+-1", b"-+1", b"--1", b"\t-", b" -", b"-0", b" -0", b"\t-0", b"-00", b"-0x", b"- ", b"-a",
            b" -a", b"\t-a", b"abc", b"0x10", b"0x", b"1e5", b"1.9", b"-1.9", b".5", b"-.5", b"5.", b".", b"e5", b"1e", b"1e+", b"1E5",
            b"12\x0034", b"\x00" + b"12", b"1\x00", b"\xff\xfe", b"\x80", b"1\xff", b"\xa0" + b"1", b"\x1c1", b"\x851",
            b"inf", b"-inf", b"+inf", b"INF", b"Infinity", b"-infinity", b"infinit", b"infinityx", b"in", b"nan", b"-nan", b"NaN", b"nanx",
            b"nan()", b"nan(1)", b"nan(0x123)", b"nan(0777)", b"nan(zz)", b"nan(12", b"nan(_a1)", b"-nan(5)", b"nan(18446744073709551615)",
            b"nan(99999999999999999999)", b"nan(0x)", b"nan(08)", b"nan(0)", b"nan(00)", b"nan(0xg)", b"nan(0xffffffffffffffffff)",
            b"1e999", b"-1e999", b"1e309", b"1.7976931348623157e308", b"1.7976931348623158e308", b"1.7976931348623159e308",
            b"1.797693134862315807e308", b"1e-999", b"-1e-999", b"4.9e-324", b"2.4e-324", b"2.5e-324", b"2.47032822920623272e-324",
            b"2.2250738585072011e-308", b"2.2250738585072014e-308", b"2.22507385850720138e-308", b"2.2250738585072013e-308",
            b"2.225073858507201383e-308", b"2.2250738585072012e-308", b"1e-320", b"1e400", b"1e-400", b"0e999", b"0e-999", b"0.0", b"-0.0",
            b"1e99999999999999999999", b"1e-99999999999999999999", b"0e99999999999999999999",
            b"0x1p3", b"0X1P3", b"0x1p-3", b"0x.8p1", b"0x1.8p1", b"0x1.p1", b"0x.p1", b"0xp1", b"0x1p", b"0x1p+", b"0x1pz", b"-0x1p3",
            b"0x1.fffffffffffffp1023", b"0x1.fffffffffffff8p1023", b"0x1.fffffffffffff7p1023", b"0x1p1024", b"0x1p-1074", b"0x1p-1075",
            b"0x1.8p-1075", b"0x1.000001p-1075", b"0x0.0000000000001p-1022", b"0x1p99999999999999999999", b"0x1p-99999999999999999999",
            b"0x0p99999999999999999999", b"0x1.fffffffffffffp-1023", b"0x1.ffffffffffffep-1023", b"0x1.fffffffffffff8p-1023",
            b"0x0.fffffffffffff8p-1022", b"0x0.fffffffffffffcp-1022", b"0x0.fffffffffffff4p-1022",
            b" 12", b"12 ", b" 1.5", b"\t1.5e3", b"1.5e3 ", b"1_000", b"1,5", b"0b101", b"1d5", b"\xd9\xa1\xd9\xa2"]
    return out


SLAT = str_lattice()
OTHER_NODES = ["n", "t", "f", "[]", "[i1]", "[d3ff8000000000000]", "[s31]", "[[i7]]", "[n]", "[i1,i2]", "[[]]", "{}", "{61:i1}",
               "{61:d3ff0000000000000,62:i2}"]


def snode(t):
    return "s" + hexs(t)


def rand_i64(rng):
    k = rng.random()
    if k < 0.4:
        return rng.randrange(I64MIN, I64MAX + 1)
    if k < 0.7:
        return rng.choice(LAT_I64)
    b = rng.randrange(0, 64)
    v = rng.randrange(0, 1 << b) if b else 0
    return max(I64MIN, min(I64MAX, -v if rng.chance(0.5) else v))


def rand_u64(rng):
    k = rng.random()
    if k < 0.4:
        return rng.randrange(0, M64 + 1)
    if k < 0.7:
        return rng.choice(LAT_U64)
    return rng.randrange(0, 1 << rng.randrange(1, 65))


def rand_dbits(rng):
    k = rng.random()
    if k < 0.35:
        return rng.randrange(0, M64 + 1)
    if k < 0.85:
        # exponent aimed at the integer range (and a little beyond), random fraction, sometimes sparse
        e = 1023 + rng.choice([rng.randrange(-3, 67), rng.choice([30, 31, 32, 52, 53, 62, 63, 64]), rng.randrange(-60, 0)])
        fr = rng.randrange(0, 1 << 52)
        if rng.chance(0.3):
            fr &= ~((1 << rng.randrange(0, 52)) - 1)
        if rng.chance(0.15):
            fr = rng.choice([0, 1, (1 << 52) - 1, (1 << 52) - 2, 1 << 51])
        return (rng.randrange(2) << 63) | (e << 52) | fr
    if k < 0.93:
        return (rng.choice(DLAT) + rng.randrange(-2, 3)) & M64
    return (rng.randrange(2) << 63) | (rng.choice([0, 0x7ff, 1, 0x7fe]) << 52) | rng.randrange(0, 1 << 52)


def rand_text(rng):
    k = rng.random()
    ws = b"".join(rng.choice(WS) for _ in range(rng.choice([0, 0, 0, 1, 1, 2, 3])))
    sg = rng.choice([b"", b"", b"-", b"-", b"+"])
    if k < 0.35:
        nd = rng.choice([1, 2, 5, 9, 10, 11, 18, 19, 19, 20, 20, 21, 25, 40])
        v = rng.randrange(10 ** (nd - 1), 10 ** nd) if nd > 1 else rng.randrange(10)
        if rng.chance(0.3):
            v = rng.choice(LAT_U64 + [M64 + 1, M64 + 2, 1 << 65]) + rng.randrange(-2, 3)
            if v < 0:
                v, sg = -v, b"-"
        t = ws + sg + (b"0" * rng.choice([0, 0, 0, 1, 4])) + str(v).encode()
        if rng.chance(0.25):
            t += rng.choice([b" ", b"x", b".", b".5", b"e3", b"\x00" + b"9", b"-", b"\t"])
        return t
    if k < 0.6:
        # decimal floats
        ip = str(rng.randrange(0, 10 ** rng.choice([1, 1, 3, 8, 17, 20, 30]))).encode() if rng.chance(0.9) else b""
        fp = (b"." + str(rng.randrange(0, 10 ** rng.choice([1, 3, 10, 17, 25]))).encode()) if rng.chance(0.6) else (b"." if rng.chance(0.1) else b"")
        ex = b""
        if rng.chance(0.6):
            ex = rng.choice([b"e", b"E"]) + rng.choice([b"", b"+", b"-"]) + str(rng.choice(
                [rng.randrange(0, 30), rng.randrange(290, 330), rng.randrange(300, 345), rng.randrange(0, 400), rng.randrange(0, 5000)])).encode()
        t = ws + sg + ip + fp + ex
        if rng.chance(0.1):
            t += rng.choice([b" ", b"x", b"e", b"f", b"."])
        return t
    if k < 0.72:
        # hex floats
        ip = ("%x" % rng.randrange(0, 1 << rng.choice([1, 4, 8, 52, 53, 54, 64, 80]))).encode() if rng.chance(0.9) else b""
        fp = (b"." + ("%x" % rng.randrange(0, 1 << rng.choice([4, 16, 52, 56, 60]))).encode()) if rng.chance(0.5) else b""
        ex = b""
        if rng.chance(0.7):
            ex = rng.choice([b"p", b"P"]) + rng.choice([b"", b"+", b"-"]) + str(rng.choice(
                [rng.randrange(0, 70), rng.randrange(960, 1100), rng.randrange(1000, 1140), rng.randrange(0, 3000)])).encode()
        t = ws + sg + rng.choice([b"0x", b"0X"]) + ip + fp + ex
        if rng.chance(0.5):
            t = t.upper() if rng.chance(0.3) else t
        return t
    if k < 0.82:
        return ws + sg + rng.choice(SLAT)
    if k < 0.9:
        w = rng.choice([b"inf", b"infinity", b"nan", b"nan(", b"nan()", b"INF", b"NAN", b"iNfInItY", b"infin", b"na"])
        t = ws + sg + w
        if rng.chance(0.4):
            t += rng.choice([b"", b"1", b"0x1f)", b"123)", b"0129)", b"_)", b"abc)", b")", b"x", b" "])
        return t
    n = rng.choice([0, 1, 2, 3, 5, 8, 16])
    alpha = b"0123456789+-. \t\neExXpPabcinfINF\x00\xff_()"
    return bytes(rng.choice(alpha) for _ in range(n))


def chunks(lines, n):
    for i in range(0, len(lines), n):
        yield {"lines": lines[i:i + n]}


# ------------------------------------------------------------------ known findings: witnesses at low frequency
_FLOAT_DEC = re.compile(rb"[ \t\n\v\f\r]*([+-]?(?:[0-9]+\.?[0-9]*|\.[0-9]+)(?:[eE][+-]?[0-9]+)?)")
_FLOAT_HEX = re.compile(rb"[ \t\n\v\f\r]*([+-]?0[xX](?:[0-9a-fA-F]+\.?[0-9a-fA-F]*|\.[0-9a-fA-F]+)(?:[pP][+-]?[0-9]+)?)")


def text_overflows_double(t):
    """does strtod consume the whole C string `t` and overflow?  (exact: Python's conversions are correctly rounded)"""
    t = t.split(b"\x00")[0]
    m = _FLOAT_HEX.fullmatch(t)
    if m:
        try:
            float.fromhex(m.group(1).decode())
            return False
        except OverflowError:
            return True
    m = _FLOAT_DEC.fullmatch(t)
    if m:
        txt = m.group(1).decode()
        # keep the exponent small enough for Python's parser; the sign of a huge exponent decides
        mm = re.fullmatch(r"([+-]?[0-9.]+)[eE]([+-]?)([0-9]+)", txt)
        if mm and len(mm.group(3)) > 6:
            mant = mm.group(1).lstrip("+-").replace(".", "").strip("0")
            return mant != "" and mm.group(2) != "-"
        return float(txt) in (float("inf"), float("-inf"))
    return False


def known_trigger(line):
    """the known-finding tag this op line makes the model log, or None"""
    w = line.split(" ")
    if w[0] in ("get", "getd", "setd") and len(w) > 1:
        node = w[1]
        if node.startswith("["):
            return "num.get_double.array-doc"
        if node.startswith("s") and w[0] != "setd":
            t = b"" if node == "s-" else bytes.fromhex(node[1:])
            if text_overflows_double(t):
                return "num.get_double.string-overflow-zero"
    return None


WITNESSES_PER_TAG = 4


def thin_known(lines):
    """Known findings must stay rare (the runner stops collecting after 20 divergences): keep a few witnesses per
    tag, each as a case of its own; every other triggering line is replaced by the accessors that do not trigger."""
    out, singles, seen = [], [], {}
    for l in lines:
        tag = known_trigger(l)
        if tag is None:
            out.append(l)
            continue
        seen[tag] = seen.get(tag, 0) + 1
        if seen[tag] <= WITNESSES_PER_TAG:
            singles.append(l)
            continue
        w = l.split(" ")
        if w[0] == "get":
            out += ["geti " + w[1], "geti64 " + w[1], "getu64 " + w[1], "getb " + w[1]]
            if w[1].startswith("s"):
                out.append("libc strtod " + w[1][1:])
        elif w[0] == "getd" and w[1].startswith("s"):
            out.append("libc strtod " + w[1][1:])
        elif w[0] == "setd":
            out.append("setb %s 1" % w[1])
    return out, singles


def gen(rng, tier):
    quick = tier == "quick"
    L = []
    # ---- 1. lattice through all accessors (one line = five accessors), and each accessor on its own for a sample
    nodes = ["i%d" % v for v in LAT_I64] + ["u%d" % v for v in LAT_U64] + ["d%016x" % b for b in DLAT] + \
            [snode(t) for t in SLAT] + OTHER_NODES + ["d3ff8000000000000:312e35", "d7ff8000000000000:4e614e"]
    L += ["get " + n for n in nodes]
    for n in nodes[::7 if quick else 1]:
        L.append(rng.choice(["geti ", "geti64 ", "getu64 ", "getd ", "getb "]) + n)
    # ---- 2. libc references on the lattice
    for t in SLAT:
        L += ["libc strtoll " + hexs(t), "libc strtoull " + hexs(t), "libc strtod " + hexs(t),
              "parsei64 " + hexs(t), "parseu64 " + hexs(t)]
    L += ["libc i2d %d" % v for v in LAT_I64] + ["libc u2d %d" % v for v in LAT_U64]
    # ---- 3. all (value, increment) boundary pairs
    incs = [v for v in LAT_I64 if abs(v) < 4 or abs(v) >= (1 << 31) - 3]
    vals_i = [v for v in LAT_I64 if abs(v) < 4 or abs(v) >= (1 << 62) - 3]
    vals_u = [v for v in LAT_U64 if v < 4 or v >= (1 << 62) - 3]
    if quick:
        incs = [v for v in incs if abs(v) < 3 or abs(v) >= (1 << 62) - 3][::2] + [1 << 31, -(1 << 31)]
        vals_i, vals_u = vals_i[::2], vals_u[::2]
    for c in vals_i:
        for k in range(0, len(incs), 6):
            L.append("inc i%d %s" % (c, " ".join(str(v) for v in incs[k:k + 6])))
        L += ["inc i%d %d" % (c, v) for v in incs[::3]]
    for c in vals_u:
        for k in range(0, len(incs), 6):
            L.append("inc u%d %s" % (c, " ".join(str(v) for v in incs[k:k + 6])))
        L += ["inc u%d %d" % (c, v) for v in incs[::3]]
    for n in OTHER_NODES + ["d4000000000000000", "s31"]:
        L.append("inc %s 1 -1" % n)
    # ---- 4. setters on every kind, boundary values
    kinds = ["n", "t", "f", "i-5", "u18446744073709551615", "i0", "d4000000000000000", "d3ff8000000000000:312e35", "s3132", "[]", "{}"]
    for n in kinds:
        for v in (0, 1, -1, 2147483647, -2147483648):
            L.append("seti %s %d" % (n, v))
        for v in [I64MIN, I64MIN + 1, -1, 0, 1, I64MAX - 1, I64MAX] + ([] if quick else LAT_I64[::9]):
            L.append("seti64 %s %d" % (n, v))
        for v in [0, 1, I64MAX, I64MAX + 1, M64 - 1, M64] + ([] if quick else LAT_U64[::9]):
            L.append("setu64 %s %d" % (n, v))
        for b in [0, 1 << 63, 0x7ff0000000000000, 0x7ff8000000000001, 0xfff8000000000000, 0x43e0000000000000, 1, 0x3ff8000000000000] + \
                ([] if quick else DLAT[::23]):
            L.append("setd %s %016x" % (n, b))
        L += ["setb %s 0" % n, "setb %s 1" % n]
    # ---- 5. random patterns
    nrand = 40000 if quick else 900000
    for _ in range(nrand):
        L.append("get i%d" % rand_i64(rng))
        L.append("get u%d" % rand_u64(rng))
        L.append("get d%016x" % rand_dbits(rng))
        L.append("get d%016x" % rand_dbits(rng))
    nstr = 12000 if quick else 200000
    for _ in range(nstr):
        t = rand_text(rng)
        # every fifth string node is held in the grown (separately allocated, negative `len`) representation
        L.append("get " + ("G" if rng.random() < 0.2 else "") + snode(t))
        k = rng.random()
        if k < 0.25:
            L.append("libc strtod " + hexs(t))
        elif k < 0.4:
            L.append("libc strtoll " + hexs(t))
        elif k < 0.55:
            L.append("libc strtoull " + hexs(t))
        elif k < 0.65:
            L.append("parsei64 " + hexs(t))
        elif k < 0.75:
            L.append("parseu64 " + hexs(t))
    # decimal <-> binary: focused strtod validation (short decimals, many digits, ties, subnormal range)
    nfd = 10000 if quick else 150000
    for _ in range(nfd):
        k = rng.random()
        if k < 0.3:
            t = repr(struct.unpack("<d", struct.pack("<Q", rand_dbits(rng) & ~(0x7ff << 52) | (rng.randrange(0, 2047) << 52)))[0]).encode()
        elif k < 0.6:
            nd = rng.randrange(1, 40)
            t = str(rng.randrange(10 ** (nd - 1), 10 ** nd)).encode() + b"e" + str(rng.randrange(-345 - nd, 310)).encode()
        elif k < 0.8:
            # exact dyadic ties: (2m+1) * 2^(e-1) printed exactly
            m = rng.randrange(1 << 52, 1 << 53)
            e = rng.randrange(-30, 40)
            num = (2 * m + 1)
            if e >= 1:
                t = str(num << (e - 1)).encode()
            else:
                sh = 1 - e
                q = num * 5 ** sh
                t = (str(q) + "e-%d" % sh).encode()
        else:
            t = ("%de%d" % (rng.randrange(1, 10 ** rng.randrange(1, 20)), rng.randrange(-345, -290))).encode()
        if b"inf" in t or b"nan" in t:
            continue
        L.append("libc strtod " + hexs(t))
    nconv = 10000 if quick else 300000
    for _ in range(nconv):
        L.append("libc i2d %d" % rand_i64(rng))
        L.append("libc u2d %d" % rand_u64(rng))
    # ---- 6. random increments and histories
    ninc = 15000 if quick else 300000
    for _ in range(ninc):
        node = ("i%d" % rand_i64(rng)) if rng.chance(0.5) else ("u%d" % rand_u64(rng))
        k = rng.choice([1, 1, 1, 2, 4, 8])
        vs = []
        for _ in range(k):
            vs.append(rand_i64(rng) if rng.chance(0.7) else rng.choice([1, -1, I64MAX, I64MIN, I64MIN + 1, 2, -2]))
        L.append("inc %s %s" % (node, " ".join(str(v) for v in vs)))
    nset = 4000 if quick else 60000
    for _ in range(nset):
        node = rng.choice(kinds + ["i%d" % rand_i64(rng), "u%d" % rand_u64(rng), "d%016x" % rand_dbits(rng)])
        k = rng.randrange(5)
        if k == 0:
            L.append("seti %s %d" % (node, rng.choice([rng.randrange(-(1 << 31), 1 << 31), 2147483647, -2147483648, 0])))
        elif k == 1:
            L.append("seti64 %s %d" % (node, rand_i64(rng)))
        elif k == 2:
            L.append("setu64 %s %d" % (node, rand_u64(rng)))
        elif k == 3:
            L.append("setd %s %016x" % (node, rand_dbits(rng)))
        else:
            L.append("setb %s %d" % (node, rng.randrange(2)))
    L, singles = thin_known(L)
    for l in singles:
        yield {"lines": [l]}
    for c in chunks(L, 60 if quick else 400):
        yield c
