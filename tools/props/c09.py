"""C09 equality / deep copy: generator for the correspondence run (model: lean/JsonC/Model/Equal.lean,
spec: lean/JsonC/Spec/Sem.lean, harness: harness/eq.c)."""
import itertools
from common import hexs

PROP = "C09"
HARNESS = "eq"
COMPONENT = "eq"
VARIANT = "asan"
SLICE = 1500
RULE = ("pairs and triples of json_object trees in the typed dump format, generated independently over a small value alphabet, "
        "as one-position mutations of one another (int signedness flips at 2^63, +-0, NaN patterns, retained number text, bytes "
        "after an embedded NUL, prefix strings, trailing null elements, null-valued vs absent members, renamed keys, kind changes), "
        "as deep member permutations, and all ordered pairs over a fixed universe of boundary values; every tree also as a deep-copy "
        "source (strings in inline and heap representation, constant keys) with a sharing walk and serializations under all 64 flag "
        "combinations, and copy-then-mutate-one-side probes followed by destroying either side; non-trivial = the model run hit "
        ">= 2 distinct branch tags; distinct = distinct op text")
ASSUMPTIONS = ["malloc/strdup succeed (allocation failure is property C08)",
               "only the default shallow copy (shallow_copy == NULL) and the serializers json-c itself installs are exercised; "
               "custom user serializers make json_object_copy_serializer_data fail by design",
               "object keys and retained number texts are C strings (no NUL), as the API requires; trees hold every key once",
               "x86-64: passing a double by value preserves signalling-NaN payloads (SSE registers)"]
TRUSTED = ["glibc memcmp/strdup/strlen", "harness/jtree.h typed dump (reads cint_type and _userdata through json_object_private.h)"]

MANIFEST = dict(
    text="Lean 4 theorems over a value-level model of json_object_equal (pointer test as an explicit same-node oracle, the four "
         "int64/uint64 cases, IEEE == on 64-bit patterns, length+memcmp strings, index-wise arrays, the two lookup walks of "
         "json_object_all_values_equal) and of json_object_deep_copy with the default shallow copy: for all well-formed trees (WF = exactly "
         "the trees the public constructors build, wf_iff_built) equal a b <-> the trees denote the same value and contain no NaN "
         "(equal_iff_sem; sem maps ints to Int, doubles to IEEE value classes, objects to key-sorted maps), the identical node always "
         "equals itself, with arbitrary node sharing the result is sandwiched between the two (equalP_of_semEq / equalP_sem); hence "
         "reflexivity with the exact NaN caveat, symmetry, transitivity, kinds never equal, member order irrelevant, ints by numeric "
         "value across signedness; the deep copy never faults, returns 0 and is node for node the source (copy_identical: same typed "
         "dump incl. signedness and retained text), equals it iff NaN-free, refuses NULL src / NULL dst / occupied *dst with EINVAL. "
         "Tied to the code by 20 shape facts regenerated from json_object.c on every run (source_shape) and by a differential run of "
         "model, spec and the ASan/UBSan-built implementation incl. pointer-disjointness walk, all-flags serialization comparison and "
         "copy-mutate-destroy probes.",
    note="Trusted: Lean kernel + propext/Classical.choice/Quot.sound; tools/extract/st_eq.py; the differential harness; allocation success "
         "(C08). Heap-level disjointness and mutation independence are checked by the harness only (the value model has them by "
         "construction); serialization equality follows from copy_identical once the serializer is a function of the typed dump (C02). "
         "The model is hand-written: theorems are about the model, the correspondence run is testing.",
    technique="Lean 4 proof (structural induction on nested trees, canonical sorted maps) + model/implementation correspondence run",
    design="6/C09")

I63 = 1 << 63
U64 = 1 << 64

# ------------------------------------------------------------------ trees
# ('n',) ('b',bool) ('i',signed,v) ('d',bits,text|None) ('s',bytes) ('a',[t]) ('o',[(key,t)])


def dump(t):
    k = t[0]
    if k == 'n':
        return "n"
    if k == 'b':
        return "t" if t[1] else "f"
    if k == 'i':
        return ("i%d" if t[1] else "u%d") % t[2]
    if k == 'd':
        return "d%016x" % t[1] + ("" if t[2] is None else ":" + hexs(t[2]))
    if k == 's':
        return "s" + hexs(t[1])
    if k == 'a':
        return "[" + ",".join(dump(x) for x in t[1]) + "]"
    return "{" + ",".join(hexs(key) + ":" + dump(v) for key, v in t[1]) + "}"


INTS = [0, 1, -1, 2, 7, 255, 2**31 - 1, 2**31, -2**31, 2**53, I63 - 1, I63 - 2, -I63, -I63 + 1]
UINTS = [0, 1, 2, 7, 2**31, 2**53, I63 - 1, I63, I63 + 1, U64 - 1, U64 - 2]
NANS = [0x7ff8000000000000, 0xfff8000000000000, 0x7ff0000000000001, 0x7fffffffffffffff, 0x7ff4000000000000,
        0xfff0000000000001]
DBLS = [0, 0x8000000000000000, 0x3ff0000000000000, 0xbff0000000000000, 0x3ff8000000000000, 0x4000000000000000,
        0x7ff0000000000000, 0xfff0000000000000, 1, 0x8000000000000001, 0x7fefffffffffffff, 0x000fffffffffffff,
        0x0010000000000000, 0x43e0000000000000, 0x4059000000000000] + NANS
TEXTS = [None, None, None, b"1.0", b"0.0", b"-0", b"1e2", b"1.500", b"100", b"NaN", b"", b"0.10000000000000001"]
STRS = [b"", b"a", b"b", b"ab", b"a\0", b"a\0b", b"a\0c", b"\0", b"\0\0", b"abcdefg", b"abcdefgh", b"abcdefghi",
        b"abcdefgX", b"x" * 40, b"x" * 39 + b"y", b"1", b"true", b"\xff\xfe", b"/\"\\\n"]
KEYS = [b"a", b"b", b"c", b"x", b"y", b"", b"ab", b"a b", b"k" * 20, b"\xc3\xa9", b"0", b"1"]


def leaf(rng):
    r = rng.random()
    if r < 0.10:
        return ('n',)
    if r < 0.18:
        return ('b', rng.chance(0.5))
    if r < 0.45:
        if rng.chance(0.5):
            return ('i', True, rng.choice(INTS) if rng.chance(0.8) else rng.randrange(-I63, I63))
        return ('i', False, rng.choice(UINTS) if rng.chance(0.8) else rng.randrange(0, U64))
    if r < 0.70:
        bits = rng.choice(DBLS) if rng.chance(0.85) else rng.getrandbits(64)
        return ('d', bits, rng.choice(TEXTS))
    return ('s', rng.choice(STRS) if rng.chance(0.85) else rng.rbytes(rng.randrange(0, 12)))


def tree(rng, depth):
    if depth <= 0 or rng.chance(0.35):
        return leaf(rng)
    if rng.chance(0.5):
        n = rng.choice([0, 1, 2, 3, 4])
        if rng.chance(0.02):
            return ('a', [leaf(rng) for _ in range(rng.choice([33, 40, 70]))])    # past ARRAY_LIST_DEFAULT_SIZE
        xs = [tree(rng, depth - 1) for _ in range(n)]
        if xs and rng.chance(0.25):
            xs[-1] = ('n',)                      # arrays ending in null
        return ('a', xs)
    n = rng.choice([0, 1, 2, 3, 4])
    if rng.chance(0.02):
        # wide objects: past JSON_OBJECT_DEF_HASH_ENTRIES, so the table has been resized (leaf members only)
        n = rng.choice([17, 24, 40])
        keys = [b"m%d" % i for i in rng.sample(range(60), n)]
        return ('o', [(k, leaf(rng)) for k in keys])
    keys = rng.sample(KEYS, n)
    return ('o', [(k, tree(rng, depth - 1) if rng.chance(0.85) else ('n',)) for k in keys])


def positions(t, p=()):
    """all positions (including NULL children) with the node there"""
    out = [(p, t)]
    if t[0] == 'a':
        for i, x in enumerate(t[1]):
            out += positions(x, p + (i,))
    elif t[0] == 'o':
        for i, (_, v) in enumerate(t[1]):
            out += positions(v, p + (i,))
    return out


def replace_at(t, p, new):
    if not p:
        return new
    i = p[0]
    if t[0] == 'a':
        xs = list(t[1]); xs[i] = replace_at(xs[i], p[1:], new); return ('a', xs)
    kvs = list(t[1]); kvs[i] = (kvs[i][0], replace_at(kvs[i][1], p[1:], new)); return ('o', kvs)


def near(rng, n):
    """a value one small step away from node n (often denoting the same value, often just not)"""
    k = n[0]
    alts = []
    if k == 'i':
        s, v = n[1], n[2]
        if s and v >= 0:
            alts += [('i', False, v)] * 3
        if not s and v < I63:
            alts += [('i', True, v)] * 3
        if not s and v >= I63:
            alts += [('i', True, v - U64), ('i', True, I63 - 1)]      # same 64-bit pattern read as int64 / neighbour
        if s and v < 0:
            alts += [('i', False, v + U64), ('i', False, -v)]
        if s and v + 1 < I63:
            alts.append(('i', True, v + 1))
        if s and v == I63 - 1:
            alts += [('i', False, I63)] * 2
        if not s and v == I63:
            alts += [('i', True, I63 - 1), ('i', True, -I63)]
        if not s and v > 0:
            alts.append(('i', False, v - 1))
        alts.append(('d', 0x3ff0000000000000, None))
    elif k == 'd':
        bits, text = n[1], n[2]
        alts += [('d', bits ^ (1 << 63), text), ('d', bits, rng.choice(TEXTS)), ('d', bits ^ 1, text),
                 ('d', rng.choice(NANS), text), ('d', bits, None), ('i', True, 0), ('i', True, 1)]
    elif k == 's':
        s = n[1]
        alts += [('s', s + b"\0"), ('s', s + b"\0x"), ('s', s[:-1]), ('s', s + b"a"), ('s', s.upper()),
                 ('s', s[::-1]), ('s', bytes(s)), ('s', bytes(s))]
        if b"\0" in s:
            i = s.index(b"\0")
            alts += [('s', s[:i]), ('s', s[:i + 1] + b"Z" * (len(s) - i - 1))] * 2
        if s:
            j = rng.randrange(len(s))
            alts.append(('s', s[:j] + bytes([s[j] ^ 1]) + s[j + 1:]))
    elif k == 'b':
        alts += [('b', not n[1]), ('i', True, int(n[1])), ('s', b"true" if n[1] else b"false")]
    elif k == 'n':
        alts += [('b', False), ('i', True, 0), ('s', b""), ('a', []), ('o', [])]
    elif k == 'a':
        xs = list(n[1])
        alts += [('a', xs + [('n',)])] * 2 + [('a', xs[:-1]), ('a', xs[::-1]), ('o', []), ('a', xs + [leaf(rng)])]
        if xs and xs[-1] == ('n',):
            alts += [('a', xs[:-1])] * 2
        if len(xs) >= 2:
            ys = list(xs); i, j = rng.sample(range(len(xs)), 2); ys[i], ys[j] = ys[j], ys[i]; alts.append(('a', ys))
    elif k == 'o':
        kvs = list(n[1])
        sh = list(kvs); rng.shuffle(sh)
        alts += [('o', sh)] * 3 + [('o', kvs[::-1])]
        free = [x for x in KEYS if x not in [a for a, _ in kvs]]
        if free:
            nk = rng.choice(free)
            alts += [('o', kvs + [(nk, ('n',))])] * 2 + [('o', [(nk, ('n',))] + kvs), ('o', kvs + [(nk, leaf(rng))])]
        if kvs:
            i = rng.randrange(len(kvs))
            alts += [('o', kvs[:i] + kvs[i + 1:])] * 2
            alts.append(('o', kvs[:i] + [(kvs[i][0], ('n',))] + kvs[i + 1:]))
            if free:
                alts += [('o', kvs[:i] + [(rng.choice(free), kvs[i][1])] + kvs[i + 1:])] * 2   # renamed key
        alts.append(('a', []))
    alts.append(('n',))
    return rng.choice(alts)


def mutate_one(rng, t):
    p, n = rng.choice(positions(t))
    return replace_at(t, p, near(rng, n))


def permute_deep(rng, t):
    if t[0] == 'a':
        return ('a', [permute_deep(rng, x) for x in t[1]])
    if t[0] == 'o':
        kvs = [(k, permute_deep(rng, v)) for k, v in t[1]]
        rng.shuffle(kvs)
        return ('o', kvs)
    return t


def flip_ints(rng, t):
    """same values, other C integer type wherever representable; zeros change sign; retained text dropped/added"""
    k = t[0]
    if k == 'i' and 0 <= t[2] < I63 and rng.chance(0.8):
        return ('i', not t[1], t[2])
    if k == 'd' and rng.chance(0.7):
        bits = t[1] ^ (1 << 63) if t[1] & ~(1 << 63) == 0 else t[1]
        return ('d', bits, rng.choice(TEXTS))
    if k == 'a':
        return ('a', [flip_ints(rng, x) for x in t[1]])
    if k == 'o':
        return ('o', [(key, flip_ints(rng, v)) for key, v in t[1]])
    return t


def variant(rng, t):
    r = rng.random()
    if r < 0.30:
        return permute_deep(rng, t)
    if r < 0.55:
        return flip_ints(rng, permute_deep(rng, t))
    if r < 0.62:
        return t
    return mutate_one(rng, t)


REPRS = ["-", "-", "h", "k", "hk", "p", "hp"]    # p: the global string hash is switched between build and copy (round-7 seed C09-12)

# fixed universe: all ordered pairs are compared
UNIVERSE = [
    "n", "t", "f", "i0", "u0", "i1", "u1", "i-1", "i9223372036854775807", "u9223372036854775807", "u9223372036854775808",
    "i-9223372036854775808", "u18446744073709551615",
    "d0000000000000000", "d8000000000000000", "d3ff0000000000000", "d3ff0000000000000:312e30", "d3ff0000000000000:31",
    "d7ff8000000000000", "dfff8000000000000", "d7ff0000000000001", "d7ff0000000000000", "dfff0000000000000",
    "s-", "s61", "s6100", "s610062", "s610063", "s6162", "s31", "s6162636465666768", "s616263646566676869",
    "[]", "[n]", "[n,n]", "[i1]", "[u1]", "[i1,n]", "[i1,i2]", "[i2,i1]", "[[]]", "[{}]",
    "{}", "{78:n}", "{79:n}", "{78:n,79:n}", "{79:n,78:n}", "{78:i1}", "{78:u1}", "{78:i1,79:i2}", "{79:i2,78:i1}",
    "{78:i2,79:i1}", "{-:n}", "{78:[]}", "{78:{}}", "{78:{79:n}}", "{78:d7ff8000000000000}",
]

MUT_VALUES = ["n", "t", "i5", "u18446744073709551615", "s7a7a", "[n]", "{71:n}", "d7ff8000000000000", "d4000000000000000:32"]


def gen_mutation(rng, t):
    """a copymut op line suffix: '<path> <mutation...>' aimed at an existing node of t"""
    pos = positions(t)
    p, n = rng.choice(pos)
    r = rng.random()
    if r < 0.04:
        p = p + (rng.choice([0, 3, 9]),) if n[0] not in 'ao' else p + (len(n[1]) + rng.choice([0, 2]),)
        n = None
    path = ".".join(str(i) for i in p) if p else "-"
    kind = n[0] if n is not None else rng.choice("sidao")
    if n is not None and rng.chance(0.08):
        kind = rng.choice("sidao")              # aimed at the wrong kind: the harness skips the call
    if kind == 's':
        s = rng.choice(STRS + [b"q" * rng.choice([1, 7, 8, 9, 30, 100])])
        return "%s setstr %s" % (path, hexs(s))
    if kind == 'i':
        return "%s setint %d" % (path, rng.choice(INTS))
    if kind == 'd':
        return "%s setdbl %016x" % (path, rng.choice(DBLS))
    if kind == 'a':
        ln = len(n[1]) if n is not None and n[0] == 'a' else 2
        if rng.chance(0.35):
            return "%s addelem %s" % (path, rng.choice(MUT_VALUES))
        return "%s putidx %d %s" % (path, rng.choice([0, max(0, ln - 1), ln, ln + 1, ln + 3]), rng.choice(MUT_VALUES))
    if kind == 'o':
        have = [k for k, _ in n[1]] if n is not None and n[0] == 'o' else []
        if have and rng.chance(0.4):
            return "%s delmem %s" % (path, hexs(rng.choice(have)))
        if rng.chance(0.15):
            return "%s delmem %s" % (path, hexs(rng.choice(KEYS)))
        k = rng.choice(have) if have and rng.chance(0.4) else rng.choice(KEYS)
        return "%s addmem %s %s" % (path, hexs(k), rng.choice(MUT_VALUES))
    # null / boolean node: nothing applies; probe with a setter (skipped by the harness)
    return "%s setint 3" % path


def gen(rng, tier):
    # a double printed from caller-managed text, deep-copied, the source's text rewritten and released afterwards
    yield {"lines": ["copyud 3ff8000000000000 " + b"1.50".hex(), "copyud 4059000000000000 " + b"100.000".hex(),
                     "copyud bfd0000000000000 " + b"-0.25".hex()]}
    # a double whose printf format the node owns, deep-copied (round-8 seeds C09-13 / C05-14)
    yield {"lines": ["copyfmt 400921f9f01b866e " + b"%.2f".hex() + " 0", "copyfmt 3ff8000000000000 " + b"%.6e".hex() + " 1",
                     "copyfmt c059000000000000 " + b"%.1f".hex() + " 1"]}
    quick = tier == "quick"
    # --- the fixed universe: every ordered pair (reflexive pairs included: separately built twins)
    u = UNIVERSE
    for i, a in enumerate(u):
        yield {"lines": ["eq %s %s %s %s" % (a, b, "h" if (i + j) % 3 == 0 else "-", "h" if (i + j) % 3 == 1 else "-")
                         for j, b in enumerate(u)]}
    for a in u:
        yield {"lines": ["eqself %s -" % a, "eqself %s h" % a, "eqshare %s" % a, "copy %s -" % a, "copy %s hk" % a,
                         "copybad %s nullsrc" % a, "copybad %s nodst" % a, "copybad %s occupied" % a]}
    # --- triples over a sub-universe (transitivity instances)
    tri = ["i1", "u1", "d3ff0000000000000", "{78:i1,79:n}", "{79:n,78:u1}", "{78:i1}", "[i1,n]", "[u1,n]", "[i1]",
           "d0000000000000000", "d8000000000000000:2d30", "d7ff8000000000000", "s6100", "s61"]
    tl = tri if not quick else tri[:9]
    for a in tl:
        yield {"lines": ["eq3 %s %s %s" % (a, b, c) for b in tl for c in tl]}
    # --- deep chains (equality and deep copy recurse over the whole tree, however deep it is)
    def chain(d, leaf):
        return "".join("[" if i % 2 == 0 else "{61:" for i in range(d)) + leaf + "".join("]" if i % 2 == 0 else "}" for i in reversed(range(d)))
    for d in ((1030, 2200) if quick else (1023, 1024, 1025, 3000, 5000)):
        a, b = chain(d, "i1"), chain(d, "u1")
        c = chain(d, "i2")
        yield {"lines": ["eq %s %s - -" % (a, b), "eq %s %s - -" % (a, c), "copy %s -" % a, "eqself %s -" % a], "noshrink": True}
    # --- random pairs / triples / copies / mutation probes
    n = 6000 if quick else 50000
    for _ in range(n):
        d = rng.choice([0, 1, 2, 2, 3])
        a = tree(rng, d)
        r = rng.random()
        lines = []
        if r < 0.10:
            b = tree(rng, d)
            lines.append("eq %s %s %s %s" % (dump(a), dump(b), rng.choice(REPRS), rng.choice(REPRS)))
        elif r < 0.45:
            b = variant(rng, a)
            lines.append("eq %s %s %s %s" % (dump(a), dump(b), rng.choice(REPRS), rng.choice(REPRS)))
            if rng.chance(0.3):
                lines.append("eq %s %s %s %s" % (dump(b), dump(variant(rng, b)), rng.choice(REPRS), rng.choice(REPRS)))
        elif r < 0.60:
            b = variant(rng, a)
            c = variant(rng, b)
            lines.append("eq3 %s %s %s" % (dump(a), dump(b), dump(c)))
        elif r < 0.66:
            lines.append("eqself %s %s" % (dump(a), rng.choice(REPRS)))
            lines.append("eqshare %s" % dump(a))
        elif r < 0.82:
            lines.append("copy %s %s" % (dump(a), rng.choice(REPRS)))
        else:
            for _ in range(rng.choice([1, 2, 3])):
                lines.append("copymut %s %s %s %s %s" % (dump(a), rng.choice(REPRS), rng.choice("sc"), rng.choice("sc"),
                                                      gen_mutation(rng, a)))
        yield {"lines": lines}
    if not quick:
        # small-scope exhaustive: every mutation of a small alphabet at every position of a few sources, both sides
        srcs = [('o', [(b"a", ('a', [('i', True, 1), ('n',), ('s', b"x\0y")])), (b"b", ('d', 0x3ff0000000000000, b"1.0")),
                       (b"c", ('n',))]),
                ('a', [('o', [(b"k", ('s', b"abcdefghij"))]), ('i', False, I63), ('n',)]),
                ('s', b"root"), ('o', []), ('a', [])]
        muts = ["setstr -", "setstr 7171717171717171717171", "setint -5", "setdbl 7ff8000000000000", "addelem n", "addelem [n]",
                "putidx 0 n", "putidx 4 t", "addmem 61 n", "addmem 7a i1", "delmem 61", "delmem 7a"]
        for s in srcs:
            for p, _ in positions(s):
                path = ".".join(str(i) for i in p) if p else "-"
                for m in muts:
                    op, rest = m.split(" ", 1)
                    yield {"lines": ["copymut %s %s %s %s %s %s %s" % (dump(s), rp, side, des, path, op, rest)
                                     for rp in ("-", "hk") for side in "sc" for des in "sc"]}
