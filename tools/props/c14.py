"""C14 locale independence: generator for the correspondence run (model: lean/JsonC/Model/Locale.lean).

A case installs a locale configuration ({C, comma} globally x {none, C, comma} per thread), then makes library calls:
`px` = one json_tokener_parse_ex call (with the outcome class the text is built to produce and optional duplocale /
newlocale failure injection), `ser`/`sert` = serialization of a double / a tree.  The harness performs every call twice
(reference under the plain C locale, observed under the installed one) and reports whether the value observables agree;
the Lean driver predicts the caller-visible locale state, the libc locale calls and (for `ser`) the bytes."""
import os, shutil, struct
from common import hexs

PROP = "C14"
HARNESS = "locale"
COMPONENT = "locale"
VARIANT = "asan"
WRAPS = ("newlocale", "duplocale", "freelocale", "uselocale", "strtod", "malloc", "calloc", "realloc", "strdup")
COMMA = "xx_XX.utf8"      # copy of C.utf8 with ',' as decimal point
CCOPY = "cc_CC.utf8"      # unmodified copy of C.utf8: a C-convention locale that is *not* glibc's static C-locale object
RULE = ("locale configurations {C, comma-decimal} installed globally (setlocale) x {none, C, comma} per thread (uselocale of a "
        "newlocale object) x parser outcome classes (success, continue through short chunks, size, depth, eof, unexpected, null, "
        "boolean, number, array, object key/sep errors, string, comment, utf8) built from texts with non-integers and exponents, "
        "x duplocale/newlocale failure injection; doubles (boundary and random bit patterns) and trees serialized with and without "
        "NOZERO / custom formats; locale changes between calls in one process; non-trivial = the model run hit >= 4 distinct "
        "branch tags; distinct = distinct op text")
NONTRIVIAL_MIN_TAGS = 4
ASSUMPTIONS = ["glibc: newlocale(LC_NUMERIC_MASK, \"C\", base) yields a locale whose radix character is '.', uselocale/duplocale/"
               "freelocale behave as POSIX specifies (the model's libc primitives); checked by the run, not proved",
               "the synthesised locale xx_XX.utf8 (copy of C.utf8 with LC_NUMERIC decimal_point = ',') stands for every comma-decimal "
               "locale; locales whose radix character is not the single byte ',' are outside the serializer's fix-up (and outside SepOnly)",
               "duplocale fails only with ENOMEM (POSIX); failure with another errno followed by a newlocale failure is not generated "
               "(the model faults there: freelocale(NULL))",
               "reference %.17g formatting for the `ser` prediction is JsonC/Libc/Dbl.fmtG17 (compared with glibc on every run)"]
TRUSTED = ["glibc locale implementation (newlocale/duplocale/uselocale/freelocale, strtod, snprintf under LC_NUMERIC)",
           "linker --wrap interposition of the locale calls and strtod", "gcc -E (preprocessed source for tools/extract/st_locale.py)"]

DEFECTS = []   # none found: the property held on everything explored

MANIFEST = dict(
    text="Lean 4 theorems over a checked model of the POSIX per-thread locale API and of json_tokener_parse_ex's prologue/epilogue: for "
         "every well-formed locale state, every duplocale/newlocale result, every exit of the parsing loop that exists in the current "
         "source and every error code, the call does not misuse a locale handle, the thread's locale handle, the live locale objects and the "
         "global numeric conventions afterwards equal those before, and the body runs under LC_NUMERIC=C (locale_restored); the "
         "serializer's post-processing maps the comma-locale snprintf text to the same bytes as the C-locale text for all doubles and "
         "flags under the hypothesis that the two differ only in the decimal separator (comma_fixup), and never leaves char buf[128]. "
         "The theorems rest on facts regenerated from the preprocessed current source on every run (no return between uselocale(newloc) "
         "and out:, prologue/epilogue call lists, no locale call in the body or in the serializer). What glibc does under a locale is "
         "checked by a differential run with a synthesised comma-decimal locale installed globally and per thread: wrapped "
         "newlocale/duplocale/freelocale/uselocale/strtod calls, handle / printf behaviour / live objects before and after, parsed bits "
         "and serialized bytes against the C-locale run, for every parser outcome class and with injected duplocale/newlocale failures.",
    note="Partial: behaviour of glibc under a locale is tested, not proved (hypothesis SepOnly; harness run). Trusted: Lean kernel + "
         "propext/Classical.choice/Quot.sound; tools/extract/st_locale.py (gcc -E + pattern matching); the harness and its linker wraps; "
         "the synthesised locale as a stand-in for real comma-decimal locales. The parser body is abstract in the model (it makes no "
         "locale call: extracted fact).",
    technique="Lean 4 proof (state invariant over an interpreted epilogue, byte-level lemma) + source-structure extraction + "
              "differential run under a synthesised locale with linker-wrapped libc",
    design="6/C14")


# ----------------------------------------------------------------------------- environment
def locpath(C):
    return os.path.join(C.BUILD, "locale")


def prepare(C, tier):
    """synthesise the comma-decimal locale: a copy of C.utf8 whose LC_NUMERIC has ',' as decimal_point (byte 32) and
    as the wide decimal point (byte 36); plus an unmodified copy under another name"""
    src = "/usr/lib/locale/C.utf8"
    dst = os.path.join(locpath(C), COMMA)
    with C.flock("locale"):
        num = os.path.join(dst, "LC_NUMERIC")
        if os.path.exists(num) and open(num, "rb").read()[32:33] == b"," and \
                os.path.exists(os.path.join(locpath(C), CCOPY, "LC_NUMERIC")) and os.path.exists(os.path.join(locpath(C), "lsan.supp")):
            return
        if not os.path.isdir(src):
            raise C.BuildError("cannot synthesise the comma locale: %s is missing" % src)
        shutil.rmtree(locpath(C), ignore_errors=True)
        os.makedirs(locpath(C), exist_ok=True)
        shutil.copytree(src, dst)
        shutil.copytree(src, os.path.join(locpath(C), CCOPY))
        b = bytearray(open(num, "rb").read())
        if b[32] != 0x2e or b[36] != 0x2e:
            raise C.BuildError("unexpected LC_NUMERIC layout in %s" % src)
        b[32] = b[36] = 0x2c
        open(num, "wb").write(bytes(b))
        # glibc keeps a few argz strings of the LOCPATH search alive (setlocale/newlocale internals): not the library's
        open(os.path.join(locpath(C), "lsan.supp"), "w").write("leak:__argz_add_sep\n")


def ENV(C):
    return {"LOCPATH": locpath(C), "LSAN_OPTIONS": "suppressions=%s:print_suppressions=0" % os.path.join(locpath(C), "lsan.supp")}


# ----------------------------------------------------------------------------- texts by outcome class
def h(s):
    return hexs(s if isinstance(s, bytes) else s.encode())


NUMS = ["1.5", "-0.25", "3.141592653589793", "1e5", "1.5e300", "-2.5E-3", "0.1", "123456.789", "1e-320", "4.9e-324",
        "1.7976931348623157e308", "0.30000000000000004", "12.5e+2", "100.0", "-1.0e0", "2.2250738585072014e-308",
        "9007199254740993.5", "0.000001", "1E400", "5e-1"]

# (class, [(lenmode, text), ...]) : a sequence of parse_ex calls on one tokener; the class is that of the *last* call,
# the earlier ones are `continue`
def success_texts(rng):
    x, y = rng.choice(NUMS), rng.choice(NUMS)
    return rng.choice([
        [("z", x)],
        [("z", "[%s, %s]" % (x, y))],
        [("n", "[%s,%s]" % (x, y))],
        [("z", '{"a": %s, "b": [%s, {"c": %s}]}' % (x, y, x))],
        [("z", " %s " % x)],
        [("n", '{"k":%s}' % x)],
    ])


def split_texts(rng):
    """continue through short chunks, splitting inside the number"""
    x = rng.choice(NUMS)
    doc = rng.choice(["[%s]" % x, '{"a":%s}' % x, "[1,%s,2.5]" % x])
    k = doc.index(x[0]) + rng.randrange(1, max(2, len(x)))
    k2 = rng.randrange(k, len(doc))
    parts = [doc[:k], doc[k:k2], doc[k2:]]
    return [("n", p) for p in parts if p]


ERRORS = {
    "depth": ["[[[[1.5]]]]", '{"a":{"b":{"c":{"d":2.5}}}}'],
    "eof": ["[1.5,\x00", '{"a":1.5e3\x00', '"abc\x00'],
    "unexpected": ["@1.5", "}", ",1.5", "[1.5,@]"],
    "null": ["nul1.5", "[1.5,nulx]"],
    "boolean": ["trux", "[2.5,fals3]"],
    "number": ["[1.5.5]", "[1e5e5]", "[-x]", "[0.5, 1..2]", "[-]"],
    "array": ["[1.5 2.5]", "[2.5e1 x"],
    "object_key_name": ["{1.5:2}", "{,}"],
    "object_key_sep": ['{"a" 1.5}'],
    "object_value_sep": ['{"a":1.5 "b":2.5}'],
    "string": ['"a\\q1.5"', '["\\u12x4"]'],
    "comment": ["[1.5, /x"],
    "utf8": ['["\xff1.5"]'],
}


def error_case(rng, cls):
    t = rng.choice(ERRORS[cls])
    flags = 0
    depth = 32
    if cls == "depth":
        depth = 3
    if cls == "utf8":
        flags = 16          # JSON_TOKENER_VALIDATE_UTF8
    return depth, flags, [("n", t)]


def dbl_bits(x):
    return struct.pack(">d", x).hex()


BOUNDARY_DOUBLES = [0.0, -0.0, 1.0, -1.0, 1.5, 0.1, 0.5, 2.5e-5, 1e-5, 1e-4, 0.0001234, 123456789012345680.0, 1e16, 1e17, 9.999999999999999e16,
                    1e15 + 0.5, 5e-324, 2.2250738585072014e-308, 1.7976931348623157e308, 1e21, 1e22, 1e23, 1.25, 100.0, 1e100, 1.5e300,
                    3.141592653589793, 0.30000000000000004, 2.0 ** 53, 2.0 ** 53 + 2, 0.1 + 0.7, 1 / 3.0, 2 / 3.0, 1e-7, 123.456, -9.5e-9,
                    4.35, 0.000001, 1e-10, 12345.678e10]
NONFINITE = ["7ff0000000000000", "fff0000000000000", "7ff8000000000000", "fff8000000000001"]


def rand_bits(rng):
    k = rng.random()
    if k < 0.25:
        return dbl_bits(rng.choice(BOUNDARY_DOUBLES) * rng.choice([1, -1]))
    if k < 0.30:
        return rng.choice(NONFINITE)
    if k < 0.55:
        # short decimals
        return dbl_bits(round(rng.uniform(-1000, 1000), rng.randrange(0, 6)))
    if k < 0.70:
        return dbl_bits(rng.randrange(-10**6, 10**6) * 10.0 ** rng.randrange(-30, 30))
    # arbitrary finite bit pattern
    while True:
        b = rng.getrandbits(64)
        if (b >> 52) & 0x7ff != 0x7ff:
            return "%016x" % b


def rand_tree(rng, depth=0):
    k = rng.random()
    if depth >= 2 or k < 0.45:
        return "d" + rand_bits(rng)
    if k < 0.55:
        return rng.choice(["n", "t", "i%d" % rng.randrange(-99, 99), "s" + h("a,b.c")])
    if k < 0.8:
        return "[" + ",".join(rand_tree(rng, depth + 1) for _ in range(rng.randrange(0, 4))) + "]"
    return "{" + ",".join("%s:%s" % (h("k%d" % i), rand_tree(rng, depth + 1)) for i in range(rng.randrange(1, 4))) + "}"


GLOBS = ["C", "comma"]
THRS = ["global", "C", "comma", "cstatic"]
SER_FLAGS = [0, 4, 2, 6, 1, 5]


def setup(g, t):
    return ["glob " + g, "thr " + t]


def px_lines(depth, flags, calls, cls, inj="-"):
    """one tokener, the calls in order; every call but the last is expected to answer `continue`"""
    out = ["tok %d %d" % (depth, flags)]
    for i, (mode, text) in enumerate(calls):
        last = i == len(calls) - 1
        out.append("px %s %s %s %s" % (inj if last else "-", cls if last else "continue", mode, h(text.encode("latin-1"))))
    return out


def scenario(rng):
    """(lines) of one library interaction, independent of the locale configuration"""
    k = rng.random()
    if k < 0.22:
        return px_lines(32, rng.choice([0, 0, 1]), success_texts(rng), "success")
    if k < 0.34:
        parts = split_texts(rng)
        # the last chunk completes the document at depth 0 only with the closing bracket: class of the last call
        return px_lines(32, 0, parts, "success")
    if k < 0.40:
        x = rng.choice(NUMS)
        return px_lines(32, 0, [("n", "[" + x[: rng.randrange(1, len(x) + 1)])], "continue")
    if k < 0.62:
        cls = rng.choice(sorted(ERRORS))
        depth, flags, calls = error_case(rng, cls)
        return px_lines(depth, flags, calls, cls)
    if k < 0.66:
        return ["tok 32 0", "px - size bad " + h("1.5")]
    if k < 0.76:
        inj = rng.choice(["d", "n", "o", "d", "n"])
        calls = success_texts(rng)
        return px_lines(32, 0, calls, "success", inj)
    if k < 0.92:
        return ["ser %d %s" % (rng.choice(SER_FLAGS[:2] * 3 + SER_FLAGS), rand_bits(rng))]
    return ["sert %d %s" % (rng.choice(SER_FLAGS), rand_tree(rng))]


def gen(rng, tier):
    quick = tier == "quick"
    # 1. every locale configuration x every outcome class x every injection (small-scope exhaustive)
    for g in GLOBS:
        for t in THRS:
            lines = setup(g, t)
            for cls in sorted(ERRORS):
                for text in (ERRORS[cls] if not quick else ERRORS[cls][:2]):
                    depth, flags = (3 if cls == "depth" else 32), (16 if cls == "utf8" else 0)
                    lines += px_lines(depth, flags, [("n", text)], cls)
            yield {"lines": lines, "keep": 2}
            lines = setup(g, t)
            for x in (NUMS if not quick else NUMS[:8]):
                lines += px_lines(32, 0, [("z", x)], "success")
                lines += px_lines(32, 0, [("n", "[" + x[:max(1, len(x) // 2)]), ("n", x[max(1, len(x) // 2):] + "]")], "success")
                lines += px_lines(32, 0, [("n", "[" + x)], "continue")
            yield {"lines": lines, "keep": 2}
            for inj in ["d", "o", "n"]:
                yield {"lines": setup(g, t) + px_lines(32, 0, [("z", "[1.5,2.25e3]")], "success", inj) +
                       px_lines(32, 0, [("z", "[1.5,2.25e3]")], "success"), "keep": 2}
            yield {"lines": setup(g, t) + ["tok 32 0", "px - size bad " + h("1.5"), "px - success z " + h("1.5")], "keep": 2}
            # the out-of-memory return paths: the k-th allocation of the call fails, for every k the call can reach
            # (round-6 seed C14-13: one allocation-failure branch returned without going through the common exit)
            if (g, t) in (("comma", "global"), ("C", "comma"), ("comma", "comma")) or not quick:
                for text in ('{"ab":[1.5,{"c":"x\\u00e9"}],"d":2.25e3}', '[[1.5],"0123456789012345678901234567890123456789",{"k":{"k":null}}]'):
                    lines = setup(g, t)
                    for k in range(1, 40):
                        lines += px_lines(32, 0, [("z", text)], "*", "m%d" % k)
                    lines += px_lines(32, 0, [("z", text)], "success")
                    yield {"lines": lines, "keep": 2}
            lines = setup(g, t)
            for x in (BOUNDARY_DOUBLES if not quick else BOUNDARY_DOUBLES[:16]):
                for fl in (0, 4):
                    lines.append("ser %d %s" % (fl, dbl_bits(x)))
            lines += ["ser 0 " + b for b in NONFINITE]
            yield {"lines": lines, "keep": 2}
            # custom formats (global / per thread): only the C-locale comparison applies
            for scope in "gt":
                for f in ["%.3f", "%.0f", "%e", "%.20g", "%5.1f"]:
                    yield {"lines": setup(g, t) + ["fmt %s %s" % (scope, h(f))] +
                           ["ser %d %s" % (fl, dbl_bits(x)) for fl in (0, 4) for x in (1.5, 2.0, -0.125, 1e20, 1234.5)] +
                           ["fmt %s -" % scope, "ser 0 " + dbl_bits(1.5)], "keep": 3}
    # 2. the locale changes between calls in one process (stale caches, leaked handles)
    order = [(g, t) for g in GLOBS for t in THRS]
    for a in order:
        for b in order:
            if a == b:
                continue
            yield {"lines": setup(*a) + ["ser 0 " + dbl_bits(1.5), "ser 4 " + dbl_bits(2.5e-5)] + px_lines(32, 0, [("z", "1.5")], "success") +
                   setup(*b) + ["ser 0 " + dbl_bits(1.5), "ser 4 " + dbl_bits(2.5e-5), "sert 0 [d%s,d%s]" % (dbl_bits(0.5), dbl_bits(1e300))] +
                   px_lines(32, 0, [("z", "[1.5e3]")], "success")}
    # 3. random scenarios under random (and changing) configurations
    # 2b. small-scope exhaustive: every sequence of up to 2 (quick) / 3 (thorough) ops over a small alphabet that mixes
    # locale changes with library calls
    import itertools
    alpha = [["glob C"], ["glob comma"], ["thr global"], ["thr comma"], ["thr C"],
             px_lines(32, 0, [("z", "[1.5,-2.5e-3]")], "success"), px_lines(32, 0, [("n", "[1.5.5]")], "number"),
             px_lines(32, 0, [("z", "1.5")], "success", "n"), px_lines(32, 0, [("n", "[1.")], "continue"),
             ["ser 0 " + dbl_bits(1.5)], ["ser 4 " + dbl_bits(2.5e-5)]]
    for d in range(1, (2 if quick else 3) + 1):
        for seq in itertools.product(alpha, repeat=d):
            yield {"lines": [l for part in seq for l in part]}
    # 3a. many doubles through the serializer (the reference %.17g + the model's post-processing predict the bytes)
    for _ in range(150 if quick else 3000):
        yield {"lines": setup(rng.choice(GLOBS), rng.choice(THRS)) +
               ["ser %d %s" % (rng.choice([0, 4]), rand_bits(rng)) for _ in range(40)], "keep": 2}
    n = 3000 if quick else 40000
    for _ in range(n):
        lines = []
        for _ in range(rng.choice([1, 1, 2, 3])):
            lines += setup(rng.choice(GLOBS), rng.choice(THRS))
            for _ in range(rng.choice([1, 2, 4])):
                lines += scenario(rng)
        yield {"lines": lines}
