"""C02: serialization emits valid JSON denoting the tree; parse(serialize(T)) = T.

Generator + oracle for the correspondence run (model: lean/JsonC/Model/Serialize.lean, spec: lean/JsonC/Spec/SerSpec.lean +
Spec/Rfc8259.lean, harness: harness/ser.c).  Three independent judges look at every text the implementation returns:
the Lean model (byte-for-byte), the Lean specification (Rfc8259.Text.ofBytes reader + Doc.denote + the explicit document docOf of
the theorems; printed in the driver's spec field) and Python's `json` module (below)."""
import sys as _sys
_sys.setrecursionlimit(100000)
import json, re, struct
from common import hexs

PROP = "C02"
HARNESS = "ser"
COMPONENT = "ser"
VARIANT = "asan"
NONTRIVIAL_MIN_TAGS = 4
SLICE = 1500
RULE = ("API-built trees in the JVal dump format: strings over all 256 byte values (every 2-character escape, every control byte, NUL, DEL, valid "
        "UTF-8 of 1-4 bytes, invalid UTF-8), NUL-free distinct keys with escapes, int64/uint64 boundaries (0, +-1, +-2^31, 2^53, 2^63-1, -2^63, 2^63, "
        "2^64-1, 10^k+-1), doubles = random bit patterns + every %.17g output shape (integral up to 17 digits, fractional, e+XX / e-XX / e+XXX / e-XXX, "
        "exponents ending in 0, 17-digit mantissas, +-0, subnormals, largest/smallest) + doubles with retained text (valid tokens and non-numbers), "
        "NaN/Infinity (outside the property: model correspondence only), empty/large/deeply nested containers (up to and beyond the tokener depth 32); "
        "each under flag combinations out of all 64 of SPACED/PRETTY/PRETTY_TAB/NOZERO/NOSLASHESCAPE/COLOR (sampled per tree in quick, a fixed tree set "
        "under all 64 in both tiers, everything under all 64 in thorough); ops ser (text+length), rt (re-parse with json_tokener depth 32, "
        "json_object_equal, re-serialization), sset (string grown through json_object_set_string_len with embedded NUL), g17 (glibc %.17g/strtod vs the "
        "Lean reference); non-trivial = the model run hit >= 4 distinct branch tags; distinct = distinct op text")
ASSUMPTIONS = ["every printbuf append succeeds (allocation failure is C08, printbuf arithmetic is C19; total output far below INT_MAX)",
               "json_c_set_serialization_double_format is not used (doubles are formatted with the standard \"%.17g\"); no custom serializer is installed",
               "C locale (locale independence is C14)",
               "libc: snprintf(\"%.17g\") produces the shape `g17Shape` and strtod reads the emitted text back to the same double - hypotheses of the "
               "theorems, checked against glibc and the exact Lean reference (Libc/Dbl.lean) on every double of every run",
               "roundtrip is a theorem about the tokener model of C01 (Model/Tokener.lean, tied to json_tokener.c by the C01/C03/C04 correspondence runs) under "
               "the libc hypotheses LibcSpec of Props/C01; this check additionally re-parses every generated text with the real json_tokener (`rt` op)",
               "retained number text (json_object_new_double_s) is inside the property only when it is an RFC 8259 number with a fraction or exponent whose "
               "value is the stored double - what the tokener attaches to a parsed double"]
TRUSTED = ["Spec/Rfc8259.lean is the RFC 8259 grammar (by inspection)", "Python's json module as a second RFC 8259 parser (strict mode, constants refused)",
           "glibc snprintf/strtod (compared with the exact Lean reference on every double)"]
DEFECTS = []
KNOWN = []
# Scope note (not a defect of the code as the property is read here, recorded so that the reader of a replay is not surprised): string and key
# bytes >= 0x80 are copied verbatim, so a tree holding a string that is not UTF-8 (witness: `ser 0 s80` -> the 3 bytes 22 80 22) serializes to a
# text that denotes the tree byte for byte (checked with Python's json on a latin-1 view and with the Lean reader on the Doc level) but is not
# UTF-8 and hence not RFC 8259; the check demands `text is UTF-8  <=>  every string and key is UTF-8` on every case, both directions.

MANIFEST = dict(
    text="Lean 4 theorems (Props/C02.lean) over a checked-C model of the serializer of json_object.c (Model/Serialize.lean: json_escape_str with its "
         "start_offset batching, int formatting in sbuf[21], json_object_double_to_json_string_format on a 128-byte buffer model - comma->point, "
         "looks_numeric, the \".0\" suffix and its guard, NOZERO trimming, truncation -, retained number text, object/array layout for SPACED / PRETTY / "
         "PRETTY_TAB, COLOR escapes; libc's %.17g is a parameter), for every flag word (all 64 combinations) and every API-built tree (any byte strings incl. "
         "NUL and invalid UTF-8, any int64/uint64, any finite double whose %.17g text has the checked shape, any nesting below 2^30): ser_escape_bytes / "
         "ser_escape_items (the escape loop never faults and emits exactly one specified piece per input byte, for all 256 byte values; the pieces are RFC "
         "string items that denote the bytes), ser_no_fault, ser_no_nul + ser_strlen_eq_length (for ALL trees and libc outputs: no NUL in the text, strlen = "
         "reported length), ser_double_post (for every %.17g-shaped text and both NOZERO values: no buffer overrun, output = text or text+\".0\", NOZERO is the "
         "identity), ser_is_doc (the colour-stripped output is Doc.text of the explicitly constructed RFC 8259 document docOf, which is well-formed, for ANY string "
         "bytes), ser_utf8_iff / ser_rfc8259 (string bytes >= 0x80 are copied verbatim: the text is well-formed UTF-8, hence RFC 8259, exactly when every string "
         "and key of the tree is - proved with utf8Valid run as an automaton), ser_denotes (that document denotes the tree: ints by value, doubles "
         "by bit pattern under the named libc hypothesis strtod(emitted text) = d, strings by bytes, members in order), ser_flags_ws_only (any two flag words give "
         "the same token values; identical token spellings when NOSLASHESCAPE agrees), roundtrip (RoundtripStatement, nothing partial: for every flag word without COLOR and every tree "
         "nested below the tokener depth 32, json_tokener_parse_ex(new_ex(32), text, -1) on the tokener model succeeds at the end of the text without fault, the "
         "tree it returns equals the original - valEq, hence C09's SemEq, the relation json_object_equal decides - and re-serializing it reproduces the text byte "
         "for byte; derived from ser_is_doc + C01's parse_valid for every libc meeting the named hypotheses LibcSpec) and roundtrip_literals (a hypothesis-free "
         "instance evaluated on the machine with the reference libc). The model is tied "
         "to the source by literals and statement shapes regenerated from json_object.c on every run (colour escapes, json_hex_chars, buffer sizes, the \".0\" "
         "guard, the NOZERO loop condition, the stored-length string call: src_shape) and by a differential run of model, specification (Lean RFC 8259 reader + "
         "docOf + denote), Python's json module and the ASan/UBSan-built implementation on generated trees x flags, including re-parse by json_tokener, "
         "json_object_equal, re-serialization, and glibc %.17g/strtod against the exact Lean reference.",
    note="Trusted: Lean kernel + propext/Classical.choice/Quot.sound; Spec/Rfc8259.lean as the reading of RFC 8259; tools/extract; harness/ser.c + Driver/Ser.lean; "
         "glibc snprintf/strtod (hypotheses g17Shape / roundTrips, compared with Libc/Dbl.lean on every double of every run); printbuf appends succeed (C08/C19). "
         "The models (serializer here, tokener of C01) are hand-written: theorems are about the models, the correspondence runs are testing. roundtrip imports "
         "Props/C01.parse_valid and carries its libc hypotheses LibcSpec (strtoll/strtoull/strtod on number texts). NaN/Infinity, custom double formats "
         "(json_c_set_serialization_double_format), custom serializers and junk retained text are outside the property (model correspondence only).",
    technique="Lean 4 proof (per-byte refinement of the escape loop, buffer-level lemmas for the double post-processing, mutual induction over trees against an "
              "RFC 8259 grammar datatype) + four-way correspondence run (implementation / Lean model / Lean specification / Python json)",
    design="6/C02")

FLAG_BITS = dict(SPACED=1, PRETTY=2, NOZERO=4, PRETTY_TAB=8, NOSLASH=16, COLOR=32)
ALL_FLAGS = list(range(64))

# --------------------------------------------------------------------------- values
# Python mirror of JVal: ('n',) | ('b', bool) | ('i', v) | ('u', v) | ('d', bits, text|None) | ('s', bytes) | ('a', [..]) | ('o', [(key, v)..])


def dump(v):
    t = v[0]
    if t == 'n':
        return "n"
    if t == 'b':
        return "t" if v[1] else "f"
    if t in ('i', 'u'):
        return "%s%d" % (t, v[1])
    if t == 'd':
        return "d%016x" % v[1] + ("" if v[2] is None else ":" + hexs(v[2]))
    if t == 's':
        return "s" + hexs(v[1])
    if t == 'a':
        return "[" + ",".join(dump(x) for x in v[1]) + "]"
    return "{" + ",".join(hexs(k) + ":" + dump(x) for k, x in v[1]) + "}"


def parse_dump(s):
    v, r = _pd(s, 0)
    if r != len(s):
        raise ValueError("trailing data in tree")
    return v


def _hexrun(s, i):
    j = i
    while j < len(s) and s[j] in "0123456789abcdef-":
        j += 1
    h = s[i:j]
    return (b"" if h == "-" else bytes.fromhex(h)), j


def _pd(s, i):
    c = s[i]
    if c == 'n':
        return ('n',), i + 1
    if c in 'tf':
        return ('b', c == 't'), i + 1
    if c in 'iu':
        j = i + 1
        while j < len(s) and (s[j].isdigit() or s[j] == '-'):
            j += 1
        return (c, int(s[i + 1:j])), j
    if c == 'd':
        bits = int(s[i + 1:i + 17], 16)
        i += 17
        if i < len(s) and s[i] == ':':
            t, i = _hexrun(s, i + 1)
            return ('d', bits, t), i
        return ('d', bits, None), i
    if c == 's':
        b, j = _hexrun(s, i + 1)
        return ('s', b), j
    if c == '[':
        i += 1
        xs = []
        if s[i] == ']':
            return ('a', xs), i + 1
        while True:
            v, i = _pd(s, i)
            xs.append(v)
            if s[i] == ',':
                i += 1
                continue
            return ('a', xs), i + 1
    if c == '{':
        i += 1
        ms = []
        if s[i] == '}':
            return ('o', ms), i + 1
        while True:
            k, i = _hexrun(s, i)
            v, i = _pd(s, i + 1)
            ms.append((k, v))
            if s[i] == ',':
                i += 1
                continue
            return ('o', ms), i + 1
    raise ValueError("bad tree")


def d2b(x):
    return struct.unpack("<Q", struct.pack("<d", x))[0]


def b2d(b):
    return struct.unpack("<d", struct.pack("<Q", b))[0]


NUM_RE = re.compile(rb"-?(0|[1-9][0-9]*)(\.[0-9]+)?([eE][+-]?[0-9]+)?\Z")


def is_utf8(b):
    try:
        b.decode("utf-8")
        return True
    except UnicodeDecodeError:
        return False


def finite(bits):
    return (bits >> 52) & 0x7ff != 0x7ff


def nest(v):
    if v[0] == 'a':
        return max([nest(x) + 1 for x in v[1]] + [0])
    if v[0] == 'o':
        return max([nest(x) + 1 for _, x in v[1]] + [0])
    return 0


def scope(v):
    """(in the property's quantifier?, every string/key valid UTF-8?) - computed here independently of the Lean side"""
    t = v[0]
    if t == 'd':
        if v[2] is None:
            return finite(v[1]), True
        m = NUM_RE.match(v[2])
        ok = bool(m) and (m.group(2) is not None or m.group(3) is not None) and finite(v[1])
        if ok:
            try:
                ok = d2b(float(v[2])) == v[1]
            except (ValueError, OverflowError):
                ok = False
        return ok, True
    if t == 'i':
        return -2 ** 63 <= v[1] < 2 ** 63, True
    if t == 'u':
        return 0 <= v[1] < 2 ** 64, True
    if t == 's':
        return True, is_utf8(v[1])
    if t == 'a':
        r = [scope(x) for x in v[1]]
        return all(a for a, _ in r), all(u for _, u in r)
    if t == 'o':
        r = [scope(x) for _, x in v[1]]
        keys = [k for k, _ in v[1]]
        ok = all(a for a, _ in r) and all(0 not in k for k in keys) and len(set(keys)) == len(keys)
        return ok, all(u for _, u in r) and all(is_utf8(k) for k in keys)
    return True, True


# --------------------------------------------------------------------------- Python's json as the independent RFC 8259 parser
COLOR_RE = re.compile(rb"\x1b\[[0-9;]*m")


class _Num(str):
    pass


def _refuse(name):
    raise ValueError("not RFC 8259: " + name)


def py_parse(text_bytes):
    """parse bytes as JSON, one char per byte (latin-1) so that string values are byte strings whatever their encoding"""
    return json.loads(text_bytes.decode("latin-1"), parse_float=_Num, parse_int=_Num, parse_constant=_refuse,
                      object_pairs_hook=lambda ps: ('o', ps))


def py_match(v, p, path="$"):
    """None if the parsed value p denotes the tree v, else a description of the first difference"""
    t = v[0]
    if t == 'n':
        return None if p is None else "%s: expected null" % path
    if t == 'b':
        return None if p is v[1] else "%s: expected %s" % (path, v[1])
    if t in ('i', 'u'):
        if not isinstance(p, _Num) or not re.fullmatch(r"-?[0-9]+", p):
            return "%s: expected the integer token %d, got %r" % (path, v[1], p)
        return None if int(p) == v[1] else "%s: integer %d printed as %s" % (path, v[1], p)
    if t == 'd':
        if not isinstance(p, _Num) or not re.search(r"[.eE]", p):
            return "%s: a double must be printed as a number with fraction or exponent, got %r" % (path, p)
        if v[2] is not None and p.encode("latin-1") != v[2]:
            return "%s: retained text %r printed as %s" % (path, v[2], p)
        return None if d2b(float(p)) == v[1] else "%s: double %016x (%r) printed as %s = %016x" % (path, v[1], b2d(v[1]), p, d2b(float(p)))
    if t == 's':
        if not isinstance(p, str) or isinstance(p, _Num):
            return "%s: expected a string" % path
        if any(ord(c) > 255 for c in p) or p.encode("latin-1") != v[1]:
            return "%s: string %s denotes %r" % (path, v[1].hex(), p)
        return None
    if t == 'a':
        if not isinstance(p, list) or len(p) != len(v[1]):
            return "%s: expected an array of %d" % (path, len(v[1]))
        for i, (x, y) in enumerate(zip(v[1], p)):
            r = py_match(x, y, "%s[%d]" % (path, i))
            if r:
                return r
        return None
    if not (isinstance(p, tuple) and len(p) == 2 and p[0] == 'o') or len(p[1]) != len(v[1]):
        return "%s: expected an object of %d members" % (path, len(v[1]))
    for (k, x), (pk, y) in zip(v[1], p[1]):
        if any(ord(c) > 255 for c in pk) or pk.encode("latin-1") != k:
            return "%s: key %s denotes %r" % (path, k.hex(), pk)
        r = py_match(x, y, "%s.%s" % (path, k.hex()))
        if r:
            return r
    return None


def fields(s):
    return dict(f.split("=", 1) for f in s.split() if "=" in f)


def compare_line(case, i, il, m, s, tags):
    op = case["lines"][i].split(" ")
    kind = op[0]
    if m.startswith("FAULT") or m.startswith("STUCK"):
        return ("spec", "the Lean model reaches a fault here: " + m[:200])
    if kind == "g17":
        if il != m:
            return ("model", "the Lean reference for %.17g / strtod (or the model of the double serializer) differs from glibc / the implementation")
        if s not in ("", "*") and fields(s) != dict(shape="1", back="1", emitted="1"):
            return ("spec", "libc hypothesis fails on this double: " + s)
        return None
    if kind not in ("ser", "rt", "sset", "cpd"):
        return None if il == m else ("model", "implementation differs from the Lean model")
    # ---- what the implementation returned
    w = il.split(" ## ")[0].split(" ")
    if len(w) < 3 or not w[0].isdigit():
        return ("spec" if il != m else "model", "no text returned: " + il[:100])
    length, slen = int(w[0]), int(w[1])
    text = b"" if w[2] == "-" else bytes.fromhex(w[2])
    tree = ('s', b"" if op[3] == "-" else bytes.fromhex(op[3])) if kind == "sset" else \
        ('d', int(op[3], 16), None) if kind == "cpd" else parse_dump(op[2])
    flags = int(op[1])
    inscope, utf8 = scope(tree)
    # (1) reported length = text length = strlen (for every tree, inside the property or not)
    if length != len(text) or slen != length:
        return ("spec", "reported length %d, strlen %d, %d bytes" % (length, slen, len(text)))
    plain = COLOR_RE.sub(b"", text)
    if inscope:
        if not (flags & 32) and plain != text:
            return ("spec", "colour escapes without JSON_C_TO_STRING_COLOR")
        # (2) an independent RFC 8259 parser accepts the text and it denotes the tree
        try:
            pv = py_parse(plain)
        except ValueError as e:
            return ("spec", "Python's json rejects the text: %s" % e)
        why = py_match(tree, pv)
        if why:
            return ("spec", "the text does not denote the tree: " + why)
        # bytes >= 0x80 are copied verbatim: the text is UTF-8 (hence RFC 8259) exactly when every string and key is
        if is_utf8(plain) != utf8:
            return ("spec", "text is %svalid UTF-8 although the strings are %svalid UTF-8" % ("" if is_utf8(plain) else "in", "" if utf8 else "in"))
        if utf8:
            try:
                json.loads(plain.decode("utf-8"), parse_constant=_refuse)
            except ValueError as e:
                return ("spec", "Python's json rejects the UTF-8 text: %s" % e)
        # (3) round trip through json-c itself
        if kind == "rt" and nest(tree) < 32 and not (flags & 32):
            f = fields(il.split(" ## ")[0])
            if f.get("rt") != "0" or f.get("eq") != "1" or f.get("re") != "1":
                return ("spec", "round trip fails: parse status %s, json_object_equal %s, re-serialization identical %s" % (f.get("rt"), f.get("eq"), f.get("re")))
    # ---- the Lean side: model byte-for-byte, then the specification's verdict on that same text
    if il != m:
        return ("model", "implementation differs from the Lean model")
    sf = fields(s)
    if sf.get("nul") != "0":
        return ("spec", "the text contains a NUL byte")
    if sf.get("scope") == "1" and not inscope:
        return ("model", "scope disagreement between the Lean specification and the generator's oracle")
    if inscope and sf.get("scope") != "1":
        # the libc hypotheses (g17Shape / round trip of the reference) fail on a double of this tree
        return ("spec", "Lean specification: the tree is outside treeOk/roundTrips although it is inside the property: " + s)
    if inscope:
        # doc = the text is the rendering of the explicit document docOf (any string bytes); rfc = the independent reader accepts the
        # text (which includes: the text is UTF-8); den = the document it read denotes the tree.  Bytes >= 0x80 are copied verbatim, so
        # the text is RFC 8259 exactly when every string and key is UTF-8.
        u = "1" if utf8 else "0"
        want = dict(doc="1", u8tree=u, utf8=u, rfc=u, den=u)
        if {k: sf.get(k) for k in want} != want:
            return ("spec", "Lean specification rejects the text (doc = rendering of docOf, rfc = reader accepts, den = denotes the tree; "
                            "strings %sUTF-8): %s" % ("" if utf8 else "not ", s))
        if kind == "rt" and nest(tree) < 32 and not (flags & 32) and sf.get("veq") != "1":
            return ("spec", "re-parsed tree differs from the original under the property's equality: " + s)
    return None


# --------------------------------------------------------------------------- generators
def rand_string(rng):
    k = rng.random()
    if k < 0.10:
        return b""
    if k < 0.30:
        return rng.rbytes(rng.choice([1, 2, 3, 8, 20, 40, 70]))
    if k < 0.45:
        return rng.rbytes(rng.randrange(1, 12), alphabet=[0, 8, 9, 10, 12, 13, 34, 47, 92, 0x1b, 0x1f, 0x20, 0x7f, 65])
    if k < 0.65:
        parts = []
        for _ in range(rng.randrange(1, 6)):
            cp = rng.choice([0x41, 0x7f, 0x80, 0xe9, 0x7ff, 0x800, 0x20ac, 0xd7ff, 0xe000, 0xfffd, 0xffff, 0x10000, 0x1f600, 0x10ffff,
                             rng.randrange(0x80, 0x800), rng.randrange(0xe000, 0x10000), rng.randrange(0x10000, 0x110000), 0x2f, 0x22, 0, 10])
            parts.append(chr(cp).encode("utf-8"))
        return b"".join(parts)
    if k < 0.78:
        return rng.choice([b"\x80", b"\xc3", b"\xc0\x80", b"\xc1\xbf", b"\xe0\x80\x80", b"\xed\xa0\x80", b"\xed\xbf\xbf", b"\xf0\x80\x80\x80", b"\xf4\x90\x80\x80",
                           b"\xf5\x80\x80\x80", b"\xff", b"\xfe", b"\xe2\x82", b"a\xf0\x9f\x98", b"\xc3\x28", b"\xe9", b"ab\xffcd"]) + \
            rng.choice([b"", b"x", b"\"", b"\x00"])
    if k < 0.9:
        return rng.rbytes(rng.randrange(1, 30), alphabet=list(b"abcXYZ 019/\\\"'{}[]:,\t\n"))
    return bytes(range(256))[rng.randrange(0, 200):][:rng.randrange(1, 60)]


def rand_key(rng, used):
    for _ in range(20):
        k = rand_string(rng).replace(b"\x00", b"")[:24]
        if rng.chance(0.4):
            k = rng.choice([b"a", b"b", b"key", b"", b"/", b"a/b", b"\"", b"\\", b"\n", b"\x01", b"\xc3\xa9", b"\xff", b"k%d" % rng.randrange(100)])
        if k not in used:
            used.add(k)
            return k
    k = b"u%d" % len(used)
    used.add(k)
    return k


INTS = [0, 1, -1, 9, 10, -10, 99, 100, 2 ** 31 - 1, 2 ** 31, -2 ** 31, -2 ** 31 - 1, 2 ** 32, 2 ** 53, 2 ** 53 + 1, -2 ** 53, 2 ** 63 - 1, -2 ** 63,
        -2 ** 63 + 1, 10 ** 18, 10 ** 18 - 1, -10 ** 18, 999999999999999999, 1000000000000000000, -999999999999999999]
UINTS = [0, 1, 9, 10, 2 ** 63 - 1, 2 ** 63, 2 ** 63 + 1, 2 ** 64 - 1, 2 ** 64 - 2, 10 ** 19, 10 ** 19 - 1, 10 ** 19 + 1, 9999999999999999999, 12345678901234567890]


def rand_int(rng):
    if rng.chance(0.5):
        if rng.chance(0.6):
            return ('i', rng.choice(INTS))
        k = rng.randrange(1, 64)
        return ('i', rng.choice([1, -1]) * rng.randrange(2 ** (k - 1), 2 ** k) if k < 63 else rng.randrange(-2 ** 63, 2 ** 63))
    if rng.chance(0.6):
        return ('u', rng.choice(UINTS))
    return ('u', rng.randrange(0, 2 ** rng.randrange(1, 65)))


SHAPED = [0.0, -0.0, 1.0, -1.0, 5.0, 10.0, 100.0, 123456789.0, 2.0 ** 53, 2.0 ** 53 + 2, 1e15, 1e16, 9999999999999998.0, 1e17, 1e18, 1e20, 1e21, 1e22, 1e23, 1e100,
          1.5e20, 2.5e30, 1.25e100, 1.5e200, 1e300, 1.7976931348623157e308, 0.5, 0.25, 0.1, 0.2, 0.3, 0.1 + 0.2, 1.5, 2.75, 1e-1, 1e-4, 1.5e-4, 1e-5, 1.5e-5, 1e-10,
          2.5e-10, 1.25e-10, 1e-20, 1e-100, 1.5e-100, 1e-300, 2.2250738585072014e-308, 2.225073858507201e-308, 5e-324, 1e-323, 4.9406564584124654e-324, 123.456,
          3.141592653589793, 2.718281828459045, 1 / 3.0, 2 / 3.0, 100.5, 1234567.125, 0.30000000000000004, 1.0000000000000002, 0.9999999999999999, 4.35, 0.000123,
          9007199254740993.0, 1.2e10, 12000000000.5, 1e10, 1.5e10, 5e-5, 1.0e-6, 123e-7, 72057594037927936.0, 1e16 + 2, 0.1e-3]


def rand_double_bits(rng):
    k = rng.random()
    if k < 0.35:
        x = rng.choice(SHAPED)
        return d2b(-x if rng.chance(0.3) else x)
    if k < 0.6:
        return rng.getrandbits(64)
    if k < 0.7:
        # integral values of every digit count, and their neighbours
        n = rng.randrange(1, 18)
        return d2b(float(rng.choice([10 ** n, 10 ** n - 1, 10 ** n + 1, rng.randrange(10 ** (n - 1), 10 ** n)])) * rng.choice([1, -1]))
    if k < 0.8:
        # decimal exponents of every size, short mantissas (exponents ending in 0 included)
        e = rng.choice([rng.randrange(-323, 309), 10 * rng.randrange(-32, 31), 100 * rng.randrange(-3, 4), rng.randrange(17, 25), rng.randrange(-7, -3)])
        mant = rng.choice(["1", "1.5", "2.5", "1.25", "9.5", "1.2", "3", "7.0625", "%d" % rng.randrange(1, 1000), "1.%d" % rng.randrange(1, 10 ** 6)])
        try:
            x = float("%se%d" % (mant, e))
        except OverflowError:
            x = 1e308
        if x == float("inf"):
            x = 1.7976931348623157e308
        return d2b(x)
    if k < 0.88:
        return rng.getrandbits(52)                       # subnormals
    if k < 0.95:
        # fractions with few binary digits
        return d2b(rng.randrange(1, 2 ** 20) / float(2 ** rng.randrange(1, 40)) * rng.choice([1, -1]))
    return rng.choice([0x7ff0000000000000, 0xfff0000000000000, 0x7ff8000000000000, 0x7ff0000000000001, 0xfff8000000000000, 0x7fefffffffffffff, 0x0010000000000000,
                       0x000fffffffffffff, 0x0000000000000001, 0x8000000000000001])


TEXTS_OK = [b"1.50", b"1.0", b"0.10", b"-0.0", b"1E5", b"1e5", b"1e+5", b"1E-5", b"1.5e+20", b"100.00", b"0.5", b"5e-1", b"-1.25E+2", b"0e0", b"0.0e-0", b"1.7976931348623157e308",
            b"4.9e-324", b"123456789012345678901234567890.5", b"0.1000000000000000055511151231257827", b"1.0e0", b"2.50e2", b"12.5e-1"]
# long retained texts: the serializer copies the text through whatever intermediate buffers it uses - lengths around 32,
# 64, 128, 256, 512 (stack buffers, initial print buffer sizes)
TEXTS_OK += [b"1." + b"5" * (n - 2) for n in (30, 31, 32, 33, 62, 63, 64, 65, 126, 127, 128, 129, 130, 255, 256, 257, 511, 512, 513)]
TEXTS_OK += [b"0." + b"0" * (n - 6) + b"1e-5" for n in (127, 128, 129)]
TEXTS_BAD = [b"abc", b"1,5", b"", b"01.5", b"1e", b".5", b"NaN", b"1.5\x1b[0m", b"100", b"-7", b"1.5 ", b"+1.5", b"1.", b"Infinity", b"1.5e+", b"0x10", b"1.5\n", b"[1.5]"]


def rand_double(rng):
    if rng.chance(0.18):
        if rng.chance(0.7):
            t = rng.choice(TEXTS_OK)
            bits = d2b(float(t))
            if rng.chance(0.08):
                bits = d2b(float(t) + 1.0)          # text that does not represent the value: outside the property
            return ('d', bits, t)
        return ('d', rand_double_bits(rng), rng.choice(TEXTS_BAD))
    return ('d', rand_double_bits(rng), None)


def rand_scalar(rng):
    k = rng.random()
    if k < 0.08:
        return ('n',)
    if k < 0.16:
        return ('b', rng.chance(0.5))
    if k < 0.38:
        return rand_int(rng)
    if k < 0.68:
        return rand_double(rng)
    return ('s', rand_string(rng))


def rand_tree(rng, depth, width=5):
    if depth <= 0 or rng.chance(0.35):
        return rand_scalar(rng)
    n = rng.choice([0, 1, 1, 2, 3, width])
    if rng.chance(0.5):
        return ('a', [rand_tree(rng, depth - 1, width) for _ in range(n)])
    used = set()
    return ('o', [(rand_key(rng, used), rand_tree(rng, depth - 1, width)) for _ in range(n)])


def chain(rng, n, leaf):
    """n containers nested inside each other around `leaf`"""
    v = leaf
    for i in range(n):
        v = ('a', [v]) if rng.chance(0.5) else ('o', [(rng.choice([b"k", b"", b"a/b"]), v)])
    return v


def no_doubles_outside(v):
    return scope(v)[0]


FIXED = [
    ('a', []), ('o', []), ('n',), ('b', True), ('s', b""), ('i', -2 ** 63), ('u', 2 ** 64 - 1), ('d', d2b(-0.0), None), ('d', d2b(1.5e20), None),
    ('a', [('n',), ('b', False), ('i', 0), ('d', d2b(0.1), None), ('s', b"a/b\"\\\b\f\n\r\t\x00\x1f\x7f\xc3\xa9")]),
    ('o', [(b"a", ('a', [])), (b"b/", ('o', [])), (b"", ('n',)), (b"\"\n", ('o', [(b"x", ('a', [('a', [('i', 1), ('i', 2)]), ('o', [])]))]))]),
    ('a', [('a', [('a', [('a', [])])]), ('o', [(b"k", ('o', [(b"k", ('o', []))]))]), ('d', d2b(1.0), b"1.00"), ('d', d2b(1e100), None), ('d', d2b(123.0), None)]),
    ('s', bytes(range(256))),
    ('o', [(bytes([c]), ('s', bytes([c]))) for c in list(range(1, 48)) + [92, 127, 128, 255]]),
]


def gen_sset(rng):
    a = rng.rbytes(rng.choice([0, 1, 3, 7, 8, 9, 20]), alphabet=list(b"abc\x00/"))
    n = rng.choice([0, 1, 2, 7, 8, 9, 10, 15, 16, 17, 30, 60])
    b = bytearray(rng.rbytes(n, alphabet=list(b"abcdefgh/\"\\\n\x01\xc3\xa9")))
    for _ in range(rng.choice([0, 1, 1, 2])):
        if b:
            b[rng.randrange(len(b))] = 0
    return "sset %d %s %s" % (rng.choice(ALL_FLAGS), hexs(bytes(a)), hexs(bytes(b)))


def lines_for(rng, v, nflags, rt_share=0.5):
    d = dump(v)
    fl = ALL_FLAGS if nflags >= 64 else rng.sample(ALL_FLAGS, nflags)
    return ["%s %d %s" % ("rt" if rng.chance(rt_share) else "ser", f, d) for f in fl]


def gen(rng, tier):
    quick = tier == "quick"
    # 1. fixed trees under all 64 flag combinations, serialized and round-tripped
    for v in FIXED:
        d = dump(v)
        yield {"lines": ["ser %d %s" % (f, d) for f in ALL_FLAGS]}
        yield {"lines": ["rt %d %s" % (f, d) for f in ALL_FLAGS]}
    # 1b. deep chains (built through the API, so the tokener's depth limit plays no part): the serializer recurses over
    #     the whole tree, however deep it is
    def deepchain(d, leaf):
        return "".join("[" if i % 2 == 0 else "{61:" for i in range(d)) + leaf + "".join("]" if i % 2 == 0 else "}" for i in reversed(range(d)))
    for d in ((1030, 1800) if quick else (1023, 1024, 1025, 2500, 4000)):
        yield {"lines": ["ser 0 %s" % deepchain(d, "i1"), "ser 16 %s" % deepchain(d, "s2f")] + (["ser 2 %s" % deepchain(200, "n")] if d < 1100 else []),
               "noshrink": True}
    # 2. every single byte as a string and as a key (key: not NUL), a few flag sets
    for c in range(256):
        fl = [0, 16, 32 + 2, 63] if quick else [0, 16, 1, 2, 34, 63, 48]
        yield {"lines": ["rt %d s%02x" % (f, c) for f in fl] + (["rt %d {%02x:s%02x}" % (f, c, c) for f in fl[:2]] if c else [])}
    # 3. scalars: integers, doubles
    for v in INTS:
        yield {"lines": lines_for(rng, ('i', v), 2, 1.0)}
    for v in UINTS:
        yield {"lines": lines_for(rng, ('u', v), 2, 1.0)}
    for x in SHAPED:
        for y in (x, -x):
            b = d2b(y)
            yield {"lines": ["g17 %016x" % b, "rt 0 d%016x" % b, "rt 4 d%016x" % b, "rt %d [d%016x]" % (rng.choice(ALL_FLAGS), b)]}
    for t in TEXTS_OK + TEXTS_BAD:
        try:
            bits = d2b(float(t))
        except ValueError:
            bits = d2b(1.5)
        if not finite(bits):
            bits = d2b(1.5)
        yield {"lines": ["rt %d %s" % (f, dump(('a', [('d', bits, t)]))) for f in (0, 4, 35)]}
    # a double that retains its source text, deep-copied, the copy set to another value
    for t in TEXTS_OK[:22]:
        b2 = d2b(float(t) * 1.5 + 0.75)
        if finite(b2):
            yield {"lines": ["cpd %d %s %016x" % (f, dump(('d', d2b(float(t)), t)), b2) for f in (0, 4)]}
    n = 4000 if quick else 120000
    for _ in range(n):
        b = rand_double_bits(rng)
        if finite(b):
            yield {"lines": ["g17 %016x" % b, "rt %d d%016x" % (rng.choice([0, 4]), b)]}
        else:
            yield {"lines": ["rt %d d%016x" % (rng.choice(ALL_FLAGS), b), "ser %d [d%016x]" % (rng.choice(ALL_FLAGS), b)]}
    if not quick:
        # every binary exponent x a few mantissa patterns; every decimal exponent
        for be in range(0, 2047):
            for frac in (0, 1, (1 << 52) - 1, 1 << 51, rng.getrandbits(52)):
                b = (be << 52) | frac
                yield {"lines": ["g17 %016x" % b, "rt %d d%016x" % (rng.choice([0, 4]), b)]}
        for e in range(-324, 309):
            for mant in ("1", "1.5", "9.999", "1.0000000000000002"):
                try:
                    x = float("%se%d" % (mant, e))
                except OverflowError:
                    continue
                if x != float("inf"):
                    yield {"lines": ["g17 %016x" % d2b(x), "rt %d d%016x" % (rng.choice(ALL_FLAGS), d2b(x))]}
    # 4. strings
    for _ in range(1500 if quick else 20000):
        s = rand_string(rng)
        yield {"lines": lines_for(rng, ('s', s), 2, 0.7)}
    for _ in range(600 if quick else 6000):
        yield {"lines": [gen_sset(rng)]}
    # 5. random trees
    for _ in range(2500 if quick else 15000):
        v = rand_tree(rng, rng.choice([1, 2, 3, 4, 6]))
        yield {"lines": lines_for(rng, v, 3 if quick else 6)}
    for _ in range(40 if quick else 300):
        v = rand_tree(rng, rng.choice([2, 3]))
        yield {"lines": lines_for(rng, v, 64)}
    # 6. deep nesting around the tokener limit, wide containers (printbuf growth)
    for n_ in ([1, 2, 5, 30, 31, 32, 33, 40] if quick else list(range(1, 45)) + [60, 100, 200]):
        for leaf in (('a', []), ('i', 7), ('o', []), ('s', b"x/")):
            yield {"lines": lines_for(rng, chain(rng, n_, leaf), 2 if quick else 4, 0.8)}
    for _ in range(6 if quick else 60):
        w = rng.choice([50, 200, 400])
        yield {"lines": lines_for(rng, ('a', [rand_scalar(rng) for _ in range(w)]), 2)}
        used = set()
        yield {"lines": lines_for(rng, ('o', [(rand_key(rng, used), rand_scalar(rng)) for _ in range(w // 2)]), 2)}
