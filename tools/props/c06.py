"""C06 linkhash / JSON object as an insertion-ordered map: generator for the correspondence run
(model: lean/JsonC/Model/Linkhash.lean, spec: lean/JsonC/Spec/OrdMap.lean, harness: harness/lh.c)."""
import itertools, os, sys
from common import hexs
import common as C

PROP = "C06"
HARNESS = "lh"
COMPONENT = "lh"
TIE = ["TranslatedLh"]       # Lemmas/TranslatedLh.lean: Model/Linkhash.lean lookup = lh_table_lookup_entry_w_hash as translated by tools/extract/c2lean.py
VARIANT = "asan"
WRAPS = ("json_c_get_random_seed",)      # the harness supplies the entropy source: -1 once, then a fixed seed
TIMEOUT = 1500
SLICE = 500            # cases per harness/driver process (gen() raises it for the thorough tier)
RULE = ("histories of lh_table_* calls (insert / lookup / delete / delete_entry / resize / length / lh_foreach / free) on tables "
        "of initial size 1..8, 16 (and 25, 50, 100: sizes at which the double load-factor product rounds) with caller-supplied "
        "hashes (constant, numeric identity, mod 3, byte sum, 64-bit) and the two real string hashes, resize also to sizes too small "
        "for the contents (the new table grows while it is refilled); histories of "
        "json_object_object_add_ex (all flag combinations, self-add) / get_ex / del / length with every iteration form (foreach, "
        "foreachC, iterator API, serializer, visitor, lh_foreach) and foreach-with-delete-current, with empty, long and colliding "
        "keys under both json_global_set_string_hash settings; long add/delete churn over many distinct keys on a table that "
        "stays small (every slot becomes a tombstone); the load-factor test against the compiled C expression over size ranges; "
        "thorough: every op sequence of length 5 over 4 keys from every initial size 1..5. "
        "non-trivial = the model run hit >= 4 distinct branch tags; distinct = distinct op text")
NONTRIVIAL_MIN_TAGS = 4
ASSUMPTIONS = ["calloc/strdup succeed (allocation failure is property C08)",
               "raw lh_table_insert is called with a key that is not in the table (as the C API requires); the model is still "
               "compared with the implementation when it is not, the specification is then silent",
               "tables of more than INT_MAX/2 slots (where growth may be refused with -1) are covered by the theorems only",
               "json_c_get_random_seed is replaced by the harness (returns -1 once, then 0x5eed1234)"]
TRUSTED = ["glibc calloc/strdup/strcmp", "Driver/Lh.lean's transcription of hashlittle / lh_perllike_str_hash (compared with the C on every key used)"]

MANIFEST = dict(
    text="Lean 4 theorems over a checked-C model of linkhash.c and of the object layer of json_object.c/.h and json_object_iterator.c "
         "(slot array empty|freed|live, next/prev/head/tail as indices, count, size; every index bounds-checked, every unlink "
         "NULL-checked, every loop on fuel), for an arbitrary hash function K -> Nat: a representation invariant (probe chains never "
         "cross an EMPTY slot, keys unique, linked list = exactly the live slots, count = #live <= size and < size after the load test) "
         "is established by lh_table_new of every size 1..INT_MAX and kept by insert (with growth to 2*size / INT_MAX), lookup, delete, "
         "delete_entry, resize, object_add_ex (all flags, replace in place), object_del, every iteration form and foreach-with-delete-"
         "current; each call refines the ordered-map specification OrdMap (lh_refines), never faults and its probe/list loops end "
         "(lh_no_fault, lookup_terminates - proved from the `count < t->size` bound read off the source), lookup answers exactly the map "
         "(lookup_correct), lh_foreach / foreach / foreachC / iterator all yield the map in insertion order (iter_all_forms; the run iterates with "
         "the serializer and with json_c_visit as well, including a visitor callback that deletes the member it is called for), deleting the "
         "current key inside foreach is safe "
         "(foreach_delete_current); lifted by induction to every finite history from every initial size (run_refines, run_from_new). "
         "The load-factor test is modelled bit-exactly (IEEE rounding of size*0.66). The model is tied to the code by constants and "
         "structural facts regenerated from the sources on every run and by a differential run of model, spec and the ASan/UBSan-built "
         "implementation (slot arrays included) on generated histories, exhaustive for length <= 5 over 4 keys from sizes 1..5 in the thorough tier.",
    note="Trusted: Lean kernel + propext/Classical.choice/Quot.sound; tools/extract (st_lh.py regexes, consts.c); the differential harness "
         "harness/lh.c and Driver/Lh.lean (incl. its transcription of hashlittle, compared with the C on every key); allocation success "
         "(failure is C08). Appends may be refused (-1, nothing changed) only by tables of more than INT_MAX/2 slots, lh_table_resize only "
         "by tables holding more than INT_MAX/4 entries. lh_table_resize to a size so small that the new table grows while refilled "
         "(repaired defect lh.resize.size-not-propagated) is covered: resize_refines holds for every positive size and rests on the "
         "source fact lhResizeKeepsArgSize = false. The model is hand-written: theorems are about the model, the correspondence run is testing. Tie by translation (new): lh_table_lookup_entry_w_hash is translated from clang's typed AST of the current source into Lean on every run (tools/extract/c2lean.py -> Generated/Translated.lean; the probe loop becomes a recursive definition over explicit fuel, the loads of t->table[n].k and equal_fn's verdicts are inputs, one per iteration) and Lemmas/TranslatedLh.lean proves by induction that Model/Linkhash.lean's lookup returns none / slot j exactly when the C function returns NULL / &t->table[j], given that memory answers what the table holds (lookupLoop_agrees, lookupEntryWHash_agrees); rebuilt and axiom-audited with the property theorems. Insert, delete and resize are not translated yet.",
    technique="Lean 4 proof (representation invariant + refinement to an association list, induction over histories) + "
              "model/implementation correspondence run + agreement theorems with Lean definitions translated from the current C source (clang AST) on every run",
    design="6/C06")

TAG_RESIZE = "lh.resize.size-not-propagated"

# Defect found by this check and repaired in /repo by the commit
# "fix: lh_table_resize recorded the requested size, not the size of the new table" (KNOWN_FINDINGS.json, fixed):
#   tag    lh.resize.size-not-propagated   (linkhash.c lh_table_resize, `t->size = new_size;`)
#   input  new 8 id; ins 31 1 0; ins 32 2 0; ins 33 3 0; resize 1; look 31
#   was    resize returned 0 with t->size == 1 while the installed entry array had 4 slots (the new table grew while it
#          was refilled): every later lookup probed only slot 0 (keys reported absent although lh_foreach listed them),
#          a later insert could spin forever in its probe loop
#   now    `t->size = new_t->size;` - the model reads this site from the source (Generated.lhResizeKeepsArgSize) and
#          Props/C06.lean `resize_refines` holds for every positive size; the generator asks for too-small sizes.
DEFECTS = []


def compare_line(case, i, il, m, s, tags):
    """check.py's default three-way comparison, except that a case the harness did not run any more (it answers
    HANG-LIMIT after several calls of earlier cases failed to return) says nothing: the hangs themselves are reported"""
    if il.startswith("HANG-LIMIT"):
        return None
    sp = il.split(" ## ")[0]
    if s not in ("", "*") and sp != s:
        return ("spec", "implementation differs from the specification")
    if il != m:
        kind = "spec" if sp != m.split(" ## ")[0] and s in ("", "*") else "model"
        if case["lines"][i].startswith("load"):
            kind = "model"      # when the table grows is a policy of the implementation, not part of the property
        return (kind, "implementation differs from the Lean model")
    return None


# ops addressed by slot number: once the internal layout no longer corresponds to the model's their meaning is unknown
LAYOUT_OPS = ("dele",)


# ----------------------------------------------------------------------------- keys
def num_keys(rng, n):
    pool = list(range(0, 14)) + [16, 17, 31, 32, 33, 48, 63, 64, 65, 99, 100, 127, 128, 255, 256, 1000, 4095, 4096, 65535,
                                 65536, 99999, 123456789, 999999999]
    return [str(x).encode() for x in rng.sample(pool, min(n, len(pool)))]


PLAIN = b"abcdefghijklmnopqrstuvwxyz0123456789_ -.ABCXYZ"


def str_keys(rng, n, raw):
    """byte-string keys: empty, short, long, 12-byte-block boundaries of hashlittle; `raw` allows any non-NUL byte"""
    ks = set()
    while len(ks) < n:
        r = rng.random()
        if r < 0.08:
            k = b""
        elif r < 0.55:
            k = bytes(rng.choice(PLAIN) for _ in range(rng.randrange(1, 4)))
        elif r < 0.80:
            k = bytes(rng.choice(PLAIN) for _ in range(rng.choice([4, 5, 7, 8, 9, 11, 12, 13, 15, 16, 23, 24, 25, 36, 37])))
        elif r < 0.92:
            k = bytes(rng.choice(PLAIN) for _ in range(rng.choice([100, 127, 128, 255, 300])))
        else:
            k = bytes(rng.choice([0x80, 0xff, 0xc3, 0xa9, 0x7f, 0x01, 0x61]) for _ in range(rng.randrange(1, 6))) if raw \
                else bytes(rng.choice([0x80, 0xff, 0xc3, 0xa9, 0x61]) for _ in range(rng.randrange(1, 6)))
        ks.add(k)
    return sorted(ks)


# ----------------------------------------------------------------------------- raw table histories
def raw_history(rng, nops, size=None, kind=None, bad_resize=False):
    kind = kind or rng.choice(["const", "id", "id", "mod3", "mod3", "sum", "big", "dflt", "perl"])
    size = size or rng.choice([1, 1, 2, 2, 3, 3, 4, 5, 6, 7, 8, 16, 16, 25, 50, 100][: (16 if rng.chance(0.97) else 13)])
    nk = rng.choice([2, 3, 4, 6, 9, 14])
    keys = num_keys(rng, nk) if kind in ("id", "mod3", "big") else str_keys(rng, nk, raw=True)
    lines = ["new %d %s" % (size, kind)]
    if kind == "dflt":
        lines.append("hash " + hexs(keys[0]))
    ents = []            # keys of the entries in the table, duplicates included (an upper bound after delete_entry)
    for _ in range(nops):
        r = rng.random()
        k = rng.choice(keys)
        if r < 0.36:
            if k in ents and not rng.chance(0.03):
                absent = [x for x in keys if x not in ents]
                if not absent:
                    lines.append("del " + hexs(k)); ents.remove(k); continue
                k = rng.choice(absent)
            lines.append("ins %s %d %d" % (hexs(k), rng.randrange(0, 1000), 1 if rng.chance(0.2) else 0))
            ents.append(k)
        elif r < 0.56:
            lines.append("look " + hexs(k))
        elif r < 0.80:
            if ents and rng.chance(0.8):
                k = rng.choice(ents)
            lines.append("del " + hexs(k))
            if k in ents:
                ents.remove(k)
        elif r < 0.83:
            # some slot below the initial size (the size never shrinks here); which key goes is the model's business,
            # so empty the table afterwards to know its contents again
            lines.append("dele %d" % rng.randrange(0, size))
            for x in ents:
                lines.append("del " + hexs(x))
            ents = []
        elif r < 0.88:
            lines.append("len")
        elif r < 0.95:
            lines.append("iter lh")
        else:
            n = len(ents)
            good = rng.choice([2 * n + 2, 2 * n + 3, 4 * n + 1, 3 * n + 7])   # the new table does not grow while it is filled
            if bad_resize and rng.chance(0.5):
                good = rng.choice([1, 1, 2, max(1, n - 1), max(1, n), n + 1])
            lines.append("resize %d" % good)
            if good < size:
                size = min(size, good)
    lines.append("free")
    return lines


def churn(rng, nops, kind, size):
    """many distinct keys added and deleted over a table that stays small"""
    lines = ["new %d %s" % (size, kind)]
    live, nxt = [], 0
    cap = max(1, int(size * 0.5))
    for i in range(nops):
        r = rng.random()
        if (len(live) < cap and r < 0.5) or not live:
            k = str(nxt).encode() if kind in ("id", "mod3", "big") else b"k%d" % nxt
            nxt += 1
            lines.append("ins %s %d 0" % (hexs(k), i % 1000))
            live.append(k)
        elif r < 0.8:
            k = live.pop(rng.randrange(len(live)))
            lines.append("del " + hexs(k))
        elif r < 0.9:
            lines.append("look " + hexs(rng.choice(live)))
        else:
            lines.append("look " + hexs(b"absent%d" % i if kind not in ("id", "mod3", "big") else str(nxt + 5).encode()))
    lines.append("free")
    return lines


def obj_churn(rng, nops, kind):
    lines = ["obj " + kind]
    live, nxt = [], 0
    for i in range(nops):
        r = rng.random()
        if (len(live) < 8 and r < 0.5) or not live:
            k = b"key%d" % nxt
            nxt += 1
            lines.append("oadd %s %d %d" % (hexs(k), i % 1000, rng.choice([0, 0, 2, 4])))
            live.append(k)
        elif r < 0.8:
            k = live.pop(rng.randrange(len(live)))
            lines.append("odel " + hexs(k))
        elif r < 0.88:
            lines.append("oget " + hexs(rng.choice(live)))
        elif r < 0.96:
            lines.append("oget " + hexs(b"nokey%d" % i))
        else:
            lines.append("iter " + rng.choice(FORMS))
    lines.append("free")
    return lines


# ----------------------------------------------------------------------------- object histories
FORMS = ["foreach", "foreachc", "iterator", "tostring", "visit", "lh", "lhsafe"]


def obj_history(rng, nops, kind=None):
    kind = kind or rng.choice(["dflt", "perl"])
    nk = rng.choice([3, 6, 12, 20, 40])
    keys = str_keys(rng, nk, raw=False)
    lines = ["obj " + kind]
    if kind == "dflt":
        lines.append("hash " + hexs(keys[0]))
    live = []
    dup = False         # a KEY_IS_NEW promise was broken: duplicate entries; deleting while iterating is then off limits
    for _ in range(nops):
        r = rng.random()
        if dup and r >= 0.92:
            r = 0.8
        k = rng.choice(keys)
        if r < 0.40:
            if rng.chance(0.03):
                lines.append("oadd %s self %d" % (hexs(k), rng.choice([0, 2, 4, 6])))
                continue
            opts = rng.choice([0, 0, 0, 4])
            if k not in live and rng.chance(0.3):
                opts |= 2
            if k in live and rng.chance(0.01):
                opts |= 2          # promise broken: a duplicate entry (model-vs-implementation only)
                dup = True
            lines.append("oadd %s %d %d" % (hexs(k), rng.choice([-1, 0, 1, 7, 42, 2147483647, 999999999999]), opts))
            if k not in live:
                live.append(k)
        elif r < 0.55:
            lines.append("oget " + hexs(k))
        elif r < 0.72:
            if live and rng.chance(0.8):
                k = rng.choice(live)
            lines.append("odel " + hexs(k))
            if k in live:
                live.remove(k)
        elif r < 0.76:
            lines.append("olen")
        elif r < 0.92:
            lines.append("iter " + rng.choice(FORMS))
        elif r < 0.985:
            ks = rng.sample(keys, rng.randrange(0, min(len(keys), 6) + 1))
            if rng.chance(0.15):
                ks = list(live)
            lines.append(((rng.choice(["fdel", "fdel", "vdel"])) + " " + " ".join(hexs(x) for x in ks)).strip())
            live = [x for x in live if x not in ks]
        else:
            ks = rng.sample(keys, rng.randrange(0, min(len(keys), 4) + 1))
            lines.append(("fcdel " + " ".join(hexs(x) for x in ks)).strip())
            # which key went is the model's business: resynchronise
            for x in keys:
                lines.append("odel " + hexs(x))
            live = []
    for f in FORMS:
        lines.append("iter " + f)
    lines.append("free")
    return lines


def wide_obj_history(rng, kind):
    """an object that has grown through several table sizes, then deletes most of its members while iterating over it
    (foreach with delete-current, and plain deletes followed by every iteration form), refills and repeats: anything that
    reorganises the table on delete (shrinking, compaction) has to keep a running iteration valid"""
    nk = rng.choice([50, 90, 140, 200])
    keys = [b"w%d_%s" % (i, rng.rbytes(rng.randrange(0, 4), b"abcxyz")) for i in range(nk)]
    lines = ["obj " + kind]
    live = []
    for k in keys:
        lines.append("oadd %s %d %d" % (hexs(k), rng.randrange(0, 1000), rng.choice([0, 0, 2])))
        live.append(k)
    lines.append("iter " + rng.choice(FORMS))
    for rnd in range(rng.choice([1, 2, 3])):
        mode = rng.choice(["all", "most", "half"])
        ks = list(live) if mode == "all" else rng.sample(live, len(live) * (9 if mode == "most" else 5) // 10)
        if rng.chance(0.6):
            lines.append(rng.choice(["fdel", "vdel"]) + " " + " ".join(hexs(x) for x in ks))
        else:
            for x in ks:
                lines.append("odel " + hexs(x))
        live = [x for x in live if x not in ks]
        lines.append("olen")
        lines.append("iter " + rng.choice(FORMS))
        for x in rng.sample(live, min(len(live), 5)):
            lines.append("oget " + hexs(x))
        for x in rng.sample(ks, min(len(ks), 5)):
            lines.append("oget " + hexs(x))
        # refill part of what went
        for x in rng.sample(ks, len(ks) // 3):
            lines.append("oadd %s %d 0" % (hexs(x), rng.randrange(0, 1000)))
            live.append(x)
    for f in FORMS:
        lines.append("iter " + f)
    lines.append("free")
    return lines


# ----------------------------------------------------------------------------- exhaustive small scope
def exhaustive(depth, sizes, kinds):
    keys = [b"0", b"1", b"2", b"3"]
    alphabet = ["ins %s 1 0" % hexs(k) for k in keys] + ["del " + hexs(k) for k in keys] + ["look " + hexs(k) for k in keys]
    for kind in kinds:
        for size in sizes:
            for seq in itertools.product(alphabet, repeat=depth):
                yield {"lines": ["new %d %s" % (size, kind)] + list(seq), "keep": 1}


def load_cases(rng, hi, step):
    lines = []
    for a in range(1, hi, step):
        lines.append("loadrange %d %d" % (a, min(hi, a + step)))
    yield {"lines": lines}
    pts = []
    for s in [1, 2, 3, 16, 25, 50, 100, 150, 1000, 4096, 12800, 65536, 1 << 20, 50 << 20, (1 << 30), (1 << 30) + 1, 2147483647,
              2147483600, 2147483646] + [rng.randrange(1, 1 << 31) for _ in range(200)] + [50 * rng.randrange(1, 1 << 25) for _ in range(200)]:
        c0 = s * 66 // 100
        for c in (c0 - 1, c0, c0 + 1, c0 + 2, 0, s, -1):
            if -1 <= c <= 2147483647:
                pts.append("load %d %d" % (s, c))
    yield {"lines": pts}


def gen(rng, tier):
    global SLICE
    quick = tier == "quick"
    SLICE = 500 if quick else 4000
    # the very first call of lh_char_hash in the process: is the hash a function of the key?
    yield {"lines": ["new 16 dflt", "hash 616c706861", "ins 616c706861 1 0", "look 616c706861", "ins 62657461 2 0", "look 616c706861",
                     "del 616c706861", "look 616c706861", "free"]}
    for c in load_cases(rng, (1 << 16) if quick else (1 << 22), 1 << 12 if quick else 1 << 16):
        yield c
    for i in range(3000 if quick else 15000):
        yield {"lines": raw_history(rng, rng.choice([10, 30, 60, 60]), bad_resize=True), "keep": 1}
    for i in range(1000 if quick else 5000):
        yield {"lines": obj_history(rng, rng.choice([10, 30, 60])), "keep": 1}
    for kind in ["dflt", "perl"]:
        for _ in range(6 if quick else 40):
            yield {"lines": wide_obj_history(rng, kind), "keep": 1}
    # churn
    for kind in ["id", "mod3", "const", "dflt", "perl", "sum"]:
        for size in ([3, 8, 16] if quick else [1, 2, 3, 5, 8, 16]):
            yield {"lines": churn(rng, 700 if quick else 50000, kind, size), "keep": 1}
    for kind in ["dflt", "perl"]:
        for _ in range(2 if quick else 4):
            yield {"lines": obj_churn(rng, 1500 if quick else 50000, kind), "keep": 1}
    # exhaustive small scope
    if quick:
        for c in exhaustive(3, [1, 2, 3, 4, 5], ["id"]):
            yield c
    else:
        for c in exhaustive(5, [1, 2, 3, 4, 5], ["id"]):
            yield c
        for c in exhaustive(4, [1, 2, 3, 4, 5], ["const", "mod3"]):
            yield c
