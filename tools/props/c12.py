"""C12 JSON Pointer: generator for the correspondence run
(model: lean/JsonC/Model/Pointer.lean, spec: lean/JsonC/Spec/Rfc6901.lean, harness: harness/ptr.c)."""
import itertools
from common import hexs

PROP = "C12"
HARNESS = "ptr"
COMPONENT = "ptr"
TIE = ["TranslatedPtr"]      # Lemmas/TranslatedPtr.lean: Model/Pointer.lean isValidIndex = is_valid_index as translated by tools/extract/c2lean.py
VARIANT = "asan"
SLICE = 150
RULE = ("trees with adversarial member names ('/', '~', '~0', '~1', '~01', '~10', digit strings, '-', empty, names equal to "
        "array-index strings, 120-130 byte names), null members/elements, arrays of length 0..12; for each tree: the properly "
        "escaped pointer to every node and malformed/dangling variants (no leading '/', empty tokens, leading zeros, '-' in "
        "lookups, indices at/after the length, >= 20-digit indices incl. 2^64-1, 2^64, 2^64+1, 2^64+i, '~' at the end, '~2', "
        "unescaped names), through json_pointer_get, json_pointer_get_internal, json_pointer_getf (\"%s\", \"/%s/%d\", \"%s%s\") "
        "and json_pointer_set / setf (replace, new member, append, at-length, null-gap, root, failing paths) with formatted "
        "pointers of exactly 127/128/129 bytes; plus all pointers over {/,~,0,1,a,-} up to a length on fixed trees. "
        "non-trivial = the model run hit >= 2 distinct branch tags; distinct = distinct op text")
ASSUMPTIONS = ["the document handed to a lookup is a json_object (obj != NULL): a JSON null *document* cannot be passed to json_pointer_get",
               "pointers and member names are C strings (no NUL byte)",
               "strdup / vasprintf / hash-table and small array growth succeed (allocation failure is C08); growing an array is "
               "modelled by an oracle and the generator only asks for lengths <= 300 or >= 2^44 slots",
               "vasprintf produces exactly the formatted bytes",
               "value handed to set is not the parent container itself (no cycles; the value-level model has no sharing)",
               "trees contain no json_object_new_double_s nodes (the harness uses the userdata slot to count releases)"]
TRUSTED = ["glibc strtoull (saturation at ULLONG_MAX), strstr, strchr, strrchr, memmove, vasprintf",
           "json_object_object_get_ex/_add (C06), json_object_array_get_idx/put_idx/add (C07) at value level"]

DEFECTS = [
    dict(tag="ptr.escape.tilde-literal",
         input='get {"a~2":1} "/a~2"  (also "/x~" on {"x~":1}; set likewise)',
         observed="rc 0, the member named 'a~2' is returned: a '~' not followed by '0' or '1' is taken literally",
         expected="RFC 6901 section 3 ABNF (escaped = '~' ('0'/'1')) makes such a pointer a syntax error ('an error condition'); "
                  "read strictly the lookup must fail (EINVAL). The property text only demands '~1 then ~0' decoding, which the code "
                  "does; this is recorded as a leniency, the check does not fail on it (Rfc6901.eval is the lenient reading, "
                  "Rfc6901.evalStrict the strict one; they agree on every ABNF-conformant pointer: theorem get_iff_rfc_strict).",
         suggested_fix="in json_pointer_get_single_path / json_pointer_set_single_path reject (errno = EINVAL) a token that contains "
                       "'~' followed by anything but '0'/'1' before unescaping"),
    dict(tag="ptr.result.index-u32",
         input="json_pointer_get_internal on an array element with index >= 2^32 (needs an array of > 4294967296 elements: not reproducible in the harness)",
         observed="struct json_pointer_get_result.index_in_parent is uint32_t while the index is size_t: the reported index is idx mod 2^32",
         expected="index_in_parent == idx (json_patch remove/move would address the wrong element)",
         suggested_fix="declare index_in_parent as size_t (internal header json_pointer_private.h)"),
]

MANIFEST = dict(
    text="Lean 4 theorems over a checked-C model of json_pointer.c (path as a C string in an allocation, every read/write bounds-checked, "
         "every size_t subtraction wrap-checked): the strstr/memmove loop equals left-to-right non-overlapping replacement (replaceAll_correct); "
         "for every tree and every NUL-free pointer, json_pointer_get/_get_internal/_getf do not fault and succeed exactly when RFC 6901 "
         "evaluation (Spec/Rfc6901.lean, written from the RFC) succeeds, then returning that node's position and value, otherwise ENOENT/EINVAL "
         "with nothing written (get_iff_rfc); json_pointer_set/_setf equal the specification's set (add-or-replace member keeping its position, "
         "replace / extend-with-null-gap / append for arrays), change nothing outside the target (set_frame), own the value exactly on success "
         "(set_ownership), and a following lookup returns the value (set_then_get); the printf-style variants equal the plain ones on the "
         "formatted string (getf_eq_get, setf_eq_set). Tied to the code by facts regenerated from json_pointer.c on every run (unescape calls and "
         "their order, strtoull conversion, index guards, vasprintf) and by a differential run of model, RFC evaluator and the ASan/UBSan-built "
         "implementation, comparing return code, errno class, node identity (position found by pointer search), tree dumps, reference counts and "
         "the number of nodes released.",
    note="Trusted: Lean kernel + propext/Classical.choice/Quot.sound; tools/extract; the differential harness; glibc strtoull/strstr/memmove/"
         "vasprintf; value-level behaviour of json_object_object_add / json_object_array_put_idx (C06/C07); allocation success (C08). "
         "Lookup theorems assume a non-NULL document (API precondition; get(NULL, p) = EINVAL is proved separately). The model is hand-written: "
         "theorems are about the model, the correspondence run is testing.",
    technique="Lean 4 proof (refinement of the buffer-level walk to a token-level evaluator, induction over the token list) + "
              "model/implementation/RFC-evaluator correspondence run + agreement theorems with Lean definitions translated from the current C source (clang AST) on every run",
    design="6/C12")

# ----------------------------------------------------------------------------- trees
# tree: None | True | False | ("i", n) | ("s", bytes) | ("a", [tree]) | ("o", [(key bytes, tree)])

KEYS = [b"/", b"~", b"~0", b"~1", b"~01", b"~10", b"0", b"1", b"2", b"10", b"11", b"01", b"00", b"-", b"", b"a", b"b", b"a/b",
        b"m~n", b"~~", b"~2", b"x~", b"//", b"12", b" ", b"%s", b"%d", b"\xc3\xa9", b"a~1b", b"~0~1", b"~1~0", b"/~", b"~/",
        b"-1", b"+1", b"1e0", b"0x1", b"18446744073709551616", b"18446744073709551617", b"foo", b"a b", b"k"]


def dump(t):
    if t is None:
        return "n"
    if t is True:
        return "t"
    if t is False:
        return "f"
    k, x = t
    if k == "i":
        return "i%d" % x
    if k == "s":
        return "s" + hexs(x)
    if k == "a":
        return "[" + ",".join(dump(e) for e in x) + "]"
    return "{" + ",".join(hexs(key) + ":" + dump(v) for key, v in x) + "}"


def esc(key):
    return key.replace(b"~", b"~0").replace(b"/", b"~1")


def gen_leaf(rng):
    r = rng.random()
    if r < 0.30:
        return None
    if r < 0.40:
        return rng.choice([True, False])
    if r < 0.75:
        return ("i", rng.choice([0, 1, -1, 7, 42, 10 ** 6]))
    return ("s", rng.choice([b"", b"x", b"/", b"~1", b"hello"]))


def gen_tree(rng, depth, want=None):
    kind = want or rng.choice(["o", "o", "a", "a", "leaf"])
    if depth <= 0 or kind == "leaf":
        return gen_leaf(rng)
    if kind == "a":
        n = rng.choice([0, 1, 2, 3, 3, 4, 5, 9, 10, 11, 12])
        if depth <= 1:
            return ("a", [gen_leaf(rng) for _ in range(n)])
        return ("a", [gen_tree(rng, depth - 1) if rng.chance(0.35) else gen_leaf(rng) for _ in range(n)])
    n = rng.choice([0, 1, 2, 3, 4, 5, 6, 8])
    keys = []
    pool = KEYS if rng.chance(0.85) else [b"a", b"b", b"k", b"foo"]
    for _ in range(n):
        k = rng.choice(pool)
        if k not in keys:
            keys.append(k)
    return ("o", [(k, gen_tree(rng, depth - 1) if rng.chance(0.45) else gen_leaf(rng)) for k in keys])


def nodes(t, prefix=b""):
    """(pointer bytes, node) for every node"""
    out = [(prefix, t)]
    if isinstance(t, tuple):
        if t[0] == "a":
            for i, e in enumerate(t[1]):
                out += nodes(e, prefix + b"/" + str(i).encode())
        elif t[0] == "o":
            for k, v in t[1]:
                out += nodes(v, prefix + b"/" + esc(k))
    return out


HUGE = [b"18446744073709551615", b"18446744073709551616", b"18446744073709551617", b"18446744073709551618",
        b"99999999999999999999", b"100000000000000000000", b"184467440737095516160", b"340282366920938463463374607431768211456",
        b"36893488147419103233", b"18446744073709551626", b"18446744073709551627", b"9223372036854775808",
        b"2305843009213693952", b"2305843009213693951", b"17592186044416000"]


def bad_tokens(rng, n):
    """tokens that must not resolve in an array of length n (plus a few that do)"""
    return [b"", b"-", b"00", b"01", b"0" + str(max(n - 1, 0)).encode(), str(n).encode(), str(n + 1).encode(), b"-1", b"+0", b"1e0",
            b" 0", b"0 ", b"0x0", b"~", b"~0", b"~1", b"0~", b"1/", rng.choice(HUGE), rng.choice(HUGE),
            str(2 ** 64 + rng.randrange(0, max(n, 1) + 1)).encode(), str(2 ** 32 + rng.randrange(0, max(n, 1))).encode()]


def risky_index(tok):
    """a last token that would make set allocate a middling amount of memory"""
    if tok and tok.isdigit() and (len(tok) == 1 or tok[0:1] != b"0"):
        v = int(tok)
        return 300 < v < 2 ** 44
    return False


def mutate_pointer(rng, p, t):
    r = rng.random()
    toks = p.split(b"/")[1:] if p else []
    if r < 0.10:
        return p[1:] if p else b"a"                      # no leading slash
    if r < 0.20:
        return p + b"/"                                  # trailing empty token
    if r < 0.28 and toks:
        i = rng.randrange(len(toks))
        return b"/" + b"/".join(toks[:i] + [b""] + toks[i:])   # empty token inside
    if r < 0.45 and toks:
        i = rng.randrange(len(toks))
        toks[i] = rng.choice(bad_tokens(rng, rng.randrange(0, 13)))
        return b"/" + b"/".join(toks)
    if r < 0.55:
        return p + b"/" + rng.choice([b"0", b"a", b"-", b"", b"~", b"~2", b"1"])   # below a node
    if r < 0.65 and toks:
        i = rng.randrange(len(toks))
        toks[i] = toks[i] + rng.choice([b"~", b"~2", b"0", b"x", b"~0", b"~1"])
        return b"/" + b"/".join(toks)
    if r < 0.75 and toks:
        i = rng.randrange(len(toks))
        # confuse the escapes
        toks[i] = toks[i].replace(b"~0", b"~").replace(b"~1", b"~01") if rng.chance(0.5) else toks[i].replace(b"~1", b"~0")
        return b"/" + b"/".join(toks)
    if r < 0.85:
        return b"/" + b"/".join(rng.choice(KEYS + HUGE + [b"0", b"1", b"3", b"10", b"11", b"12"]) for _ in range(rng.choice([1, 2, 3])))
    if r < 0.92 and toks:
        return b"/" + b"/".join(toks[:-1])               # the parent
    return p + p                                         # doubled


VALUES = [None, ("i", 99), ("s", b"v"), True, ("a", []), ("o", []), ("a", [None, ("i", 1)]),
          ("o", [(b"x", ("a", [("i", 1), ("o", [(b"~", None)])])), (b"/", ("s", b"y"))])]


def lookup_line(rng, tree_s, p):
    r = rng.random()
    if b"\x00" in p:
        p = p.replace(b"\x00", b"")
    if r < 0.45:
        return "get %s %s" % (tree_s, hexs(p))
    if r < 0.70:
        return "geti %s %s" % (tree_s, hexs(p))
    if r < 0.85:
        return "getf %s %s" % (tree_s, hexs(p))
    # split formats
    toks = p.split(b"/")
    if len(toks) == 3 and toks[0] == b"" and toks[2].lstrip(b"-").isdigit() and len(toks[2]) < 10 and \
            str(int(toks[2])).encode() == toks[2]:
        return "getf2 %s %s %d" % (tree_s, hexs(toks[1]), int(toks[2]))
    k = rng.randrange(0, len(p) + 1)
    return "getfs %s %s %s" % (tree_s, hexs(p[:k]), hexs(p[k:]))


def set_line(rng, tree_s, p, v):
    toks = p.split(b"/")
    if risky_index(toks[-1]):
        toks[-1] = rng.choice([b"13", b"40", b"300", b"18446744073709551615", b"17592186044416", b"2305843009213693952"])
        p = b"/".join(toks)
    vs = dump(v)
    r = rng.random()
    if r < 0.6:
        return "set %s %s %s" % (tree_s, hexs(p), vs)
    if r < 0.8:
        return "setf %s %s %s" % (tree_s, hexs(p), vs)
    if len(toks) == 3 and toks[0] == b"" and toks[2].isdigit() and len(toks[2]) < 4 and str(int(toks[2])).encode() == toks[2]:
        return "setf2 %s %s %d %s" % (tree_s, hexs(toks[1]), int(toks[2]), vs)
    k = rng.randrange(0, len(p) + 1)
    return "setfs %s %s %s %s" % (tree_s, hexs(p[:k]), hexs(p[k:]), vs)


def tree_case(rng, budget):
    root_kind = rng.choice(["o", "o", "o", "a", "a", "leaf"])
    t = gen_tree(rng, rng.choice([1, 2, 2, 3]), root_kind)
    ts = dump(t)
    ns = nodes(t)
    lines = []
    ptrs = [p for p, _ in ns]
    if len(ptrs) > budget:
        ptrs = [ptrs[0]] + rng.sample(ptrs[1:], budget - 1)
    for p in ptrs:
        lines.append(lookup_line(rng, ts, p))
    for _ in range(max(3, budget // 2)):
        p = rng.choice(ns)[0]
        lines.append(lookup_line(rng, ts, mutate_pointer(rng, p, t)))
    # sets: replace existing nodes, add members / elements, failing ones
    containers = [(p, n) for p, n in ns if isinstance(n, tuple) and n[0] in ("a", "o")]
    for _ in range(max(3, budget // 2)):
        v = rng.choice(VALUES)
        r = rng.random()
        if r < 0.25:
            p = rng.choice(ns)[0]                                   # replace an existing node (incl. the root)
        elif r < 0.70 and containers:
            cp, cn = rng.choice(containers)
            if cn[0] == "a":
                n = len(cn[1])
                tok = rng.choice([b"-", str(n).encode(), str(n + 1).encode(), str(n + rng.randrange(2, 30)).encode(),
                                  str(rng.randrange(0, n + 1)).encode(), b"0", b"", b"00", b"01", b"-1", b"~0", b"a",
                                  rng.choice(HUGE), b"--", b"-/", str(2 ** 64 + n).encode()])
            else:
                tok = esc(rng.choice(KEYS)) if rng.chance(0.8) else rng.choice([b"~", b"~2", b"a~", b"~01", b"~10", b"~1~0"])
            p = cp + b"/" + tok
        elif r < 0.85:
            p = mutate_pointer(rng, rng.choice(ns)[0], t)
        else:
            p = rng.choice(ns)[0] + b"/" + rng.choice([b"x", b"0", b"-", b""]) + b"/" + rng.choice([b"y", b"0", b"-"])
        lines.append(set_line(rng, ts, p, v))
    return lines


def long_key_case(rng):
    """formatted pointers of exactly 126..130 bytes; the tree also holds the name minus its last byte"""
    lines = []
    for total in (126, 127, 128, 129, 130, rng.choice([255, 256, 257, 64, 200])):
        fill = rng.choice([b"k", b"ab", b"~0", b"~1", b"x/"])
        # object member: pointer "/" + esc(key), |pointer| = total
        ekey = (esc(fill) * total)[: total - 1]
        if ekey.endswith(b"~"):
            ekey = ekey[:-1] + b"q"
        key = ekey.replace(b"~1", b"/").replace(b"~0", b"~")
        short = key[:-1]
        t = ("o", [(key, ("s", b"full")), (short, ("s", b"prefix")), (b"other", ("i", 1))])
        ts = dump(t)
        p = b"/" + esc(key)
        assert len(p) == total, (len(p), total)
        for op in ("get", "getf", "geti"):
            lines.append("%s %s %s" % (op, ts, hexs(p)))
        k = rng.randrange(0, len(p) + 1)
        lines.append("getfs %s %s %s" % (ts, hexs(p[:k]), hexs(p[k:])))
        lines.append("set %s %s %s" % (ts, hexs(p), "s" + hexs(b"NEW")))
        lines.append("setf %s %s %s" % (ts, hexs(p), "s" + hexs(b"NEW")))
        lines.append("setfs %s %s %s %s" % (ts, hexs(p[:k]), hexs(p[k:]), "i5"))
        # "/%s/%d": name + index, |pointer| = total; arrays a (length 12) under `name` and b under name-minus-last
        for d in (3, 11):
            nlen = total - 2 - len(str(d))
            name = (b"n" * nlen)
            t2 = ("o", [(name, ("a", [("i", 100 + i) for i in range(12)])),
                        (name[:-1], ("a", [("i", 200 + i) for i in range(12)])), (name + b"1", ("a", [None] * 12))])
            ts2 = dump(t2)
            assert len(b"/" + name + b"/" + str(d).encode()) == total
            lines.append("getf2 %s %s %d" % (ts2, hexs(name), d))
            lines.append("setf2 %s %s %d %s" % (ts2, hexs(name), d, "t"))
            lines.append("get %s %s" % (ts2, hexs(b"/" + name + b"/" + str(d).encode())))
    return lines


ALPHA = [b"/", b"~", b"0", b"1", b"a", b"-"]
FIXED = [
    ("o", [(b"a", ("a", [("i", 10), ("o", [(b"~", ("i", 1)), (b"/", ("i", 2)), (b"", None)]), None])),
           (b"", ("o", [(b"0", ("s", b"z")), (b"a/", ("i", 3)), (b"-", ("a", []))])),
           (b"~1", ("i", 5)), (b"0", ("a", [("a", []), ("i", 7)])), (b"-", None), (b"~0", ("o", [(b"1", ("i", 1))])),
           (b"/", ("a", [None, None])), (b"~", ("i", 8)), (b"1", ("o", [])), (b"a~", ("i", 9)), (b"01", ("i", 11)),
           (b"~01", ("i", 12)), (b"/0", ("i", 13)), (b"~/", ("i", 14))]),
    ("a", [("a", [("i", 0), ("i", 1), ("a", [("i", 2)])]), ("o", [(b"a", None), (b"0", ("i", 1)), (b"-", ("i", 2)), (b"", ("a", [None]))]),
           None, ("s", b"s"), ("i", 1), ("i", 2), ("i", 3), ("i", 4), ("i", 5), ("i", 6), ("a", [("i", 10)]), ("a", [("i", 11), None])]),
    ("s", b"leaf"),
    None,
]


def exhaustive(maxlen, sets):
    for t in FIXED:
        ts = dump(t)
        lines = []
        for n in range(0, maxlen + 1):
            for tup in itertools.product(ALPHA, repeat=n):
                p = b"".join(tup)
                lines.append("get %s %s" % (ts, hexs(p)))
                if sets and not risky_index(p.split(b"/")[-1]):
                    lines.append("set %s %s %s" % (ts, hexs(p), "i77"))
                if len(lines) >= 400:
                    yield {"lines": lines}
                    lines = []
        if lines:
            yield {"lines": lines}


def gen(rng, tier):
    quick = tier == "quick"
    n = 10000 if quick else 60000
    for _ in range(n):
        yield {"lines": tree_case(rng, rng.choice([6, 10, 16]))}
    for _ in range(8 if quick else 60):
        yield {"lines": long_key_case(rng)}
    yield from exhaustive(4 if quick else 6, True)
    # geti / getf over the exhaustive pointers of moderate length
    for t in FIXED[:2]:
        ts = dump(t)
        lines = []
        for nn in range(0, (3 if quick else 5) + 1):
            for tup in itertools.product(ALPHA, repeat=nn):
                p = b"".join(tup)
                lines.append("geti %s %s" % (ts, hexs(p)))
                lines.append("getf %s %s" % (ts, hexs(p)))
                if not risky_index(p.split(b"/")[-1]):
                    lines.append("setf %s %s %s" % (ts, hexs(p), "n"))
                if len(lines) >= 399:
                    yield {"lines": lines}
                    lines = []
        if lines:
            yield {"lines": lines}


def _norm_lookup(specpart):
    w = specpart.split(" ")
    if len(w) >= 2 and w[0] != "0" and w[1] in ("ENOENT", "EINVAL"):
        w[1] = "E"
    return " ".join(w)


def compare_line(case, i, il, m, s, tags):
    """lookups: the specification allows either error class (ENOENT / EINVAL) for a pointer that does not resolve"""
    is_lookup = case["lines"][i].startswith("get")
    isp = il.split(" ## ")[0]
    if s not in ("", "*"):
        a = _norm_lookup(isp) if is_lookup else isp
        if a != s:
            return ("spec", "implementation differs from the RFC 6901 specification")
    if il != m:
        kind = "spec" if (isp != m.split(" ## ")[0] and s in ("", "*")) else "model"
        return (kind, "implementation differs from the Lean model")
    return None
