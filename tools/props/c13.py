"""C13 JSON Patch: generator for the correspondence run
(model: lean/JsonC/Model/Patch.lean, spec: lean/JsonC/Spec/Rfc6902.lean, harness: harness/patch.c).

A case is:  `doc <tree>`, any number of `op <element tree>`, then `run <mode>` (or `runraw <mode> <tree>`
for a patch document that is not built from elements).  Trees are in the JVal dump format."""
import copy, itertools

PROP = "C13"
HARNESS = "patch"
COMPONENT = "patch"
VARIANT = "asan"
SLICE = 1000
NONTRIVIAL_MIN_TAGS = 4
RULE = ("(document, patch) pairs: multi-operation patches whose paths are aimed into the evolving document by a small "
        "tracking interpreter (existing locations, array ends, '-', one past the end, 2^32/2^64-based indices, leading zeros, "
        "keys needing ~0/~1 escapes, empty keys, null members/elements, the root), move/copy with from/path equal, "
        "prefix-like ('/a' vs '/ab'), parent/child in both directions and every index pair inside one array; test values "
        "equal up to member order / integer storage type / int-vs-double; both calling conventions (*base, copy_from); plus a "
        "malformed stream (non-array patch documents, non-object elements, missing / null / ill-typed op, path, from, value, "
        "unknown op names, extra members) and exhaustive small-scope enumeration of single operations and from/path pairs over "
        "a fixed path alphabet; non-trivial = the model run hit >= 4 distinct coverage tags; distinct = distinct case text")
ASSUMPTIONS = ["malloc/realloc/strdup succeed (allocation failure is property C08)",
               "json_object_get_string of a non-string 'op'/'path'/'from' is its SPACED serialization; the driver's serializer does not "
               "format doubles without retained text, so the generator never puts one inside such a field",
               "the patch, the document and copy_from are separate trees without internal sharing when json_patch_apply is called",
               "arrays have fewer than 2^32 elements (json_pointer_get_result.index_in_parent is a uint32_t; not reachable in a test)"]
TRUSTED = ["harness/jtree.h (tree builder / dumper)", "ASan allocator statistics (__sanitizer_get_current_allocated_bytes) for the leak clause",
           "glibc strtoull, strstr, memmove, strdup"]

MANIFEST = dict(
   text="Lean 4 theorems over a value-level model of json_patch.c (json_patch_apply, test / remove / add_replace / move_copy, the two array "
        "callbacks) and of the json_pointer.c functions it calls (json_pointer_get_internal, json_pointer_set_with_array_cb: C-string token "
        "split, two-pass unescape, is_valid_index with strtoull saturation, locate-then-mutate through the found location), against an "
        "RFC 6902 / RFC 6901 specification written from the RFC texts: for every document, every value as patch document, both calling "
        "conventions and every behaviour of the serializer / equality parameters the call never faults (patch_no_fault) and never changes "
        "the patch (patch_doc_unchanged); for every well-formed operation list of any length it yields exactly the document sequential "
        "RFC 6902 evaluation yields or fails reporting exactly the index of the first operation the RFC makes fail, provided no recorded "
        "known-finding clause fired (patch_eq_rfc_partial, by refinement of each operation and induction over the list; decide-checked "
        "counter-examples show the unrestricted statement false for each clause); every element that is not an operation object "
        "(not an object, op/path missing, null, ill-typed or unknown, value/from missing, null or ill-typed) makes the call fail at or before "
        "that element (patch_malformed_safe). Tied to the code by literals and structural facts regenerated from json_patch.c / "
        "json_pointer.c on every run (source_facts) and by a differential run of model, spec and the ASan/UBSan-built implementation on "
        "generated (document, patch) pairs, which also checks the heap-level clauses: patch and copy_from dumps unchanged, no json_object "
        "node reachable twice (patch/result/copy_from), no heap bytes left allocated.",
   note="Trusted: Lean kernel + propext/Classical.choice/Quot.sound; tools/extract; the differential harness (jtree.h builder/dumper, ASan "
        "allocator statistics for the leak clause); glibc strtoull/strstr/memmove. Value-level model: the in-place mutation through a found "
        "pointer is modelled as an update at the found location, exact for tree-shaped documents (the sharing clause is checked by the harness "
        "on every case, not proved). json_object_equal / json_object_to_json_string / deep copy are parameters (C09, C02); allocation failure is C08. "
        "On failure json-c leaves the document half-applied (json_patch.h: modified in place): theorems speak about the result on success and the "
        "fact and index of failure. Known findings C13-null-root, C13-tilde-lenient, C13-cstr-truncation, C13-test-int-vs-double are excluded by the "
        "'no tag fired' hypothesis. Arrays are assumed shorter than 2^32 (uint32_t index_in_parent). The model is hand-written: theorems are about "
        "the model, the correspondence run is testing.",
   technique="Lean 4 proof (refinement of a checked model against an RFC specification, induction over operation lists) + model/implementation correspondence run",
   design="6/C13")

# Genuine deviations from RFC 6902 that are recorded rather than repaired (main session's disposition);
# each is a tagged clause of the model.  To be merged into /verif/KNOWN_FINDINGS.json.
KNOWN = [
    dict(id="C13-null-root", property="C13", tag="patch.null-root",
         site="json_pointer.c json_pointer_get_internal: `!obj` (called from json_patch.c test/remove/replace/move/copy)",
         witness=["doc {}", "op {6f70:s616464,70617468:s-,76616c7565:n}", "op {6f70:s74657374,70617468:s-,76616c7565:n}", "run base"],
         description="once the document has become JSON null (add/replace \"\" null, remove \"\"), an operation that references "
                     "the whole document (path or from \"\") fails with EINVAL instead of seeing the value null: "
                     "[{add \"\" null},{test \"\" null}] on {} fails at index 1, RFC 6902 succeeds"),
    dict(id="C13-tilde-lenient", property="C13", tag="patch.ptr.tilde-lenient",
         site="json_pointer.c json_pointer_get_single_path / json_pointer_set_single_path: string_replace_all_occurrences_with_char",
         witness=["doc {}", "op {6f70:s616464,70617468:s2f7e32,76616c7565:i1}", "run base"],
         description="a '~' not followed by '0' or '1' in path/from is kept as a literal character (\"/~2\" adds the member \"~2\"; "
                     "\"/~2\" and \"/~02\" name the same member) although the string is not an RFC 6901 JSON Pointer and the "
                     "operation must fail"),
    dict(id="C13-cstr-truncation", property="C13", tag="patch.cstr-truncation",
         site="json_patch.c json_patch_apply: json_object_get_string(jop/jpath/jfrom) used as a C string",
         witness=["doc {61:i1}", "op {6f70:s616464,70617468:s2f610062,76616c7565:i7}", "run base"],
         description="op/path/from strings containing U+0000 are cut at the NUL: path \"/a\\u0000b\" replaces member \"a\", "
                     "op \"add\\u0000x\" runs add"),
    dict(id="C13-test-int-vs-double", property="C13", tag="patch.test.int-vs-double",
         site="json_patch.c json_patch_apply_test: json_object_equal (json_object.c: o_type mismatch)",
         witness=["doc {61:i1}", "op {6f70:s74657374,70617468:s2f61,76616c7565:d3ff0000000000000}", "run base"],
         description="test compares an integer and a double as unequal even when numerically equal (1 vs 1.0), RFC 6902 4.6 "
                     "says numbers are equal when numerically equal"),
]

DEFECTS = [
    dict(tag="patch.copy.same-array-slot", input=["doc [i1,i2,i3]", "op {6f70:s636f7079,66726f6d:s2f31,70617468:s2f31}", "run base"],
         observed="rc=0, document unchanged [1,2,3]", expected="[1,2,2,3] (RFC 6902 4.5: copy = add of the value at from)",
         suggested_fix="take the from == path shortcut only for move", status="fixed in /repo 59dca34 by the main session"),
] + [dict(tag=k["tag"], input=k["witness"], observed=k["description"], expected="RFC 6902 / RFC 6901 behaviour",
          suggested_fix="none (behaviour-changing); recorded as known finding " + k["id"]) for k in KNOWN]


# --------------------------------------------------------------------------- comparison
# tools/check.py stops exploring after 20 divergences, explained or not.  Divergences that are
# explained by a recorded finding (implementation == model, spec differs, every tag that fired is
# listed in KNOWN_FINDINGS.json - exactly check.py's own rule) are therefore handed to check.py only
# the first two times per tag (enough for its KNOWN-FINDING line); later ones are counted here.
_known_tags = None
_reported = {}
_suppressed = {}


def _known():
    global _known_tags
    if _known_tags is None:
        import common
        _known_tags = {f["tag"] for f in common.load_known().get("findings", []) if f.get("property") == PROP}
    return _known_tags


def compare_line(case, i, il, m, s, tags):
    impl_spec = il.split(" ## ")[0]
    if m.startswith("FAULT"):
        return ("spec", "the Lean model reaches a fault here (dangling pointer / impossible branch): " + m)
    if s not in ("", "*") and impl_spec != s:
        if il == m and tags and all(t in _known() for t in tags):
            if all(_reported.get(t, 0) >= 2 for t in tags):
                for t in tags:
                    _suppressed[t] = _suppressed.get(t, 0) + 1
                return None
            for t in tags:
                _reported[t] = _reported.get(t, 0) + 1
        return ("spec", "implementation differs from the specification")
    if il != m:
        kind = "spec" if impl_spec != m.split(" ## ")[0] and s in ("", "*") else "model"
        return (kind, "implementation differs from the Lean model")
    return None


def extra_coverage():
    return {"known_finding_cases": {t: _reported.get(t, 0) + _suppressed.get(t, 0) for t in sorted(set(_reported) | set(_suppressed))}}


# --------------------------------------------------------------------------- values
# Python mirror of JVal: None | bool | ('i', v) | ('u', v) | ('d', bits, text or None) | bytes | list | dict(bytes -> value)

def hx(b):
    return b.hex() if b else "-"


def dump(v):
    if v is None:
        return "n"
    if v is True:
        return "t"
    if v is False:
        return "f"
    if isinstance(v, bytes):
        return "s" + hx(v)
    if isinstance(v, tuple):
        if v[0] in ("i", "u"):
            return "%s%d" % (v[0], v[1])
        return "d%016x" % v[1] + ((":" + hx(v[2])) if v[2] is not None else "")
    if isinstance(v, list):
        return "[" + ",".join(dump(x) for x in v) + "]"
    return "{" + ",".join(hx(k) + ":" + dump(x) for k, x in v.items()) + "}"


KEYS = [b"a", b"b", b"ab", b"a/b", b"m~n", b"~1", b"~0", b"", b"0", b"1", b"-", b"01", b"~", b"c d", b"\xc3\xa9", b"/", b"x"]
D_ONE, D_ZERO, D_NZERO, D_NAN, D_HALF, D_BIG = 0x3ff0000000000000, 0, 0x8000000000000000, 0x7ff8000000000000, 0x3fe0000000000000, 0x43e0000000000000


def gen_scalar(rng, plain_double=True):
    k = rng.randrange(12)
    if k == 0:
        return None
    if k == 1:
        return rng.choice([True, False])
    if k <= 4:
        return ("i", rng.choice([0, 1, 2, 5, -1, 42, -(1 << 63), (1 << 63) - 1]))
    if k == 5:
        return ("u", rng.choice([0, 1, 5, (1 << 63), (1 << 64) - 1]))
    if k == 6:
        if plain_double and rng.chance(0.6):
            return ("d", rng.choice([D_ONE, D_ZERO, D_NZERO, D_NAN, D_HALF, D_BIG]), None)
        return rng.choice([("d", D_ONE, b"1.0"), ("d", D_HALF, b"0.5"), ("d", D_ONE, b"1e0"), ("d", 0x4014000000000000, b"5.0")])
    return rng.choice([b"", b"x", b"foo", b"/a", b"a\x00b", b"~0", b"1"])


def gen_val(rng, depth, plain_double=True):
    if depth <= 0 or rng.chance(0.35):
        return gen_scalar(rng, plain_double)
    if rng.chance(0.5):
        return [gen_val(rng, depth - 1, plain_double) for _ in range(rng.choice([0, 1, 2, 3, 3, 4]))]
    d = {}
    for _ in range(rng.choice([0, 1, 2, 3, 4])):
        d[rng.choice(KEYS)] = gen_val(rng, depth - 1, plain_double)
    return d


def gen_doc(rng):
    r = rng.random()
    if r < 0.08:
        return gen_scalar(rng) if rng.chance(0.7) else ("i", 3)
    v = gen_val(rng, rng.choice([1, 2, 2, 3]))
    if not isinstance(v, (list, dict)):
        v = {b"a": v, b"b": [("i", 1), None, ("i", 3)]}
    if isinstance(v, dict) and rng.chance(0.5):
        v.setdefault(b"a", {b"b": [("i", 1), ("i", 2)], b"c": None})
        v.setdefault(b"ab", ("i", 7))
    return v


# --------------------------------------------------------------------------- pointers (aiming only)
def esc(tok):
    return tok.replace(b"~", b"~0").replace(b"/", b"~1")


def ptr(tokens):
    return b"".join(b"/" + esc(t) for t in tokens)


def locations(v, pre=()):
    """every location of the document as a tuple of unescaped tokens"""
    out = [pre]
    if isinstance(v, list):
        for i, x in enumerate(v):
            out += locations(x, pre + (b"%d" % i,))
    elif isinstance(v, dict):
        for k, x in v.items():
            out += locations(x, pre + (k,))
    return out


class Fail(Exception):
    pass


def idx_of(tok, n, allow_end):
    if tok == b"-" and allow_end:
        return n
    if not tok.isdigit() or (len(tok) > 1 and tok[0:1] == b"0") or not tok.isascii():
        raise Fail()
    i = int(tok)
    if i > n or (i == n and not allow_end):
        raise Fail()
    return i


def t_get(v, toks):
    for t in toks:
        if isinstance(v, list):
            v = v[idx_of(t, len(v), False)]
        elif isinstance(v, dict):
            if t not in v:
                raise Fail()
            v = v[t]
        else:
            raise Fail()
    return v


def t_add(doc, toks, val):
    if not toks:
        return val
    p = t_get(doc, toks[:-1])
    t = toks[-1]
    if isinstance(p, list):
        p.insert(idx_of(t, len(p), True), val)
    elif isinstance(p, dict):
        p[t] = val
    else:
        raise Fail()
    return doc


def t_remove(doc, toks):
    if not toks:
        return None
    p = t_get(doc, toks[:-1])
    t = toks[-1]
    if isinstance(p, list):
        del p[idx_of(t, len(p), False)]
    elif isinstance(p, dict):
        if t not in p:
            raise Fail()
        del p[t]
    else:
        raise Fail()
    return doc


def t_apply(doc, kind, path, frm, val):
    """tracking interpreter on unescaped token tuples; returns the new document or raises Fail"""
    doc = copy.deepcopy(doc)
    if kind == "add":
        return t_add(doc, path, copy.deepcopy(val))
    if kind == "remove":
        t_get(doc, path)
        return t_remove(doc, path)
    if kind == "replace":
        t_get(doc, path)
        if not path:
            return copy.deepcopy(val)
        p = t_get(doc, path[:-1])
        if isinstance(p, list):
            p[idx_of(path[-1], len(p), False)] = copy.deepcopy(val)
        else:
            p[path[-1]] = copy.deepcopy(val)
        return doc
    if kind == "test":
        t_get(doc, path)
        return doc
    v = copy.deepcopy(t_get(doc, frm))
    if kind == "copy":
        return t_add(doc, path, v)
    if frm == path:
        return doc
    if path[:len(frm)] == frm:
        raise Fail()
    return t_add(t_remove(doc, frm), path, v)


# --------------------------------------------------------------------------- operations
K_OP, K_PATH, K_FROM, K_VALUE = b"op", b"path", b"from", b"value"
BIG = [1 << 64, (1 << 64) + 1, (1 << 64) + 2, (1 << 32), (1 << 32) + 1, (1 << 64) - 1, 10 ** 25, 4294967297, 18446744073709551617]


def elem(rng, kind, path=None, frm=None, val=None, has_val=False):
    """a patch element (dict in member order); path/frm are byte strings"""
    m = [(K_OP, kind if isinstance(kind, bytes) else kind.encode())]
    if path is not None:
        m.append((K_PATH, path))
    if frm is not None:
        m.append((K_FROM, frm))
    if has_val:
        m.append((K_VALUE, val))
    if rng.chance(0.25):
        rng.shuffle(m)
    if rng.chance(0.05):
        m.insert(rng.randrange(len(m) + 1), (rng.choice([b"x", b"comment", b"Op", b"value2"]), rng.choice([None, ("i", 1), b"y"])))
    return dict(m)


def index_tokens(rng, n):
    """array reference tokens around the ends of an n-array and far beyond"""
    c = [b"0", b"%d" % max(0, n - 1), b"%d" % n, b"%d" % (n + 1), b"-", b"%d" % rng.randrange(0, n + 2)]
    c += [b"%d" % (b + rng.choice([0, 0, 1, max(0, n - 1), n])) for b in rng.sample(BIG, 2)]
    c += [b"0%d" % rng.randrange(0, n + 1), b"00", b"-1", b"+1", b"1e0", b"", b" 1", b"1 ", b"0x1", b"\xd9\xa1", b"--", b"-0"]
    return c


def aim_path(rng, doc, for_add):
    """token tuple aimed at the current document"""
    locs = locations(doc)
    r = rng.random()
    if r < 0.08:
        return ()
    base = rng.choice(locs)
    try:
        v = t_get(doc, base)
    except Fail:
        v = None
    if isinstance(v, list) and rng.chance(0.8):
        n = len(v)
        if rng.chance(0.6):
            return base + (rng.choice([b"0", b"%d" % max(0, n - 1), b"%d" % n, b"-", b"%d" % rng.randrange(0, n + 1)]),)
        return base + (rng.choice(index_tokens(rng, n)),)
    if isinstance(v, dict) and rng.chance(0.7):
        if v and rng.chance(0.5):
            return base + (rng.choice(list(v.keys())),)
        return base + (rng.choice(KEYS),)
    if r < 0.55 or not for_add:
        if rng.chance(0.12):
            return base + (rng.choice(KEYS + [b"0", b"-"]),)          # below a scalar / missing
        return base
    return base + (rng.choice(KEYS),) + ((rng.choice(KEYS),) if rng.chance(0.15) else ())


def mangle(rng, p):
    """syntactically odd pointer strings"""
    k = rng.randrange(9)
    if k == 0:
        return p[1:] if p else b"a"
    if k == 1:
        return p + b"/"
    if k == 2:
        return b"/" + p
    if k == 3:
        return p + rng.choice([b"~", b"~2", b"/~", b"/~2x", b"/a~"])
    if k == 4:
        return p.replace(b"~0", b"~00", 1) if b"~0" in p else p + b"/~01"
    if k == 5:
        return p + b"\x00" + rng.choice([b"", b"b", b"/x"])
    if k == 6:
        return b"#" + p
    if k == 7:
        return p.replace(b"/", b"//", 1)
    return p + b" "


def variant_equal(rng, v):
    """a value RFC-equal to v, differently represented"""
    if isinstance(v, dict):
        items = [(k, variant_equal(rng, x)) for k, x in v.items()]
        rng.shuffle(items)
        return dict(items)
    if isinstance(v, list):
        return [variant_equal(rng, x) for x in v]
    if isinstance(v, tuple) and v[0] == "i" and v[1] >= 0 and rng.chance(0.5):
        return ("u", v[1])
    if isinstance(v, tuple) and v[0] == "u" and v[1] < (1 << 63) and rng.chance(0.5):
        return ("i", v[1])
    if isinstance(v, tuple) and v[0] == "d" and v[2] is None and rng.chance(0.3):
        return ("d", v[1], b"1.0")
    if isinstance(v, tuple) and v[0] in ("i", "u") and v[1] in (0, 1, 5) and rng.chance(0.08):
        return ("d", {0: D_ZERO, 1: D_ONE, 5: 0x4014000000000000}[v[1]], None)       # known finding: int vs double
    return copy.deepcopy(v)


def variant_unequal(rng, v):
    k = rng.randrange(5)
    if isinstance(v, list) and k < 3:
        return v + [None] if k == 0 else (v[:-1] if v else [[]])
    if isinstance(v, dict) and k < 3:
        d = dict(v)
        if k == 0 or not d:
            d[b"zz"] = None
        else:
            d.pop(next(iter(d)))
        return d
    return rng.choice([None, ("i", 77), b"zz", [], {}, ("d", D_NAN, None)]) if v != ("i", 77) else ("i", 78)


def gen_op(rng, doc):
    """returns (element, kind, path tokens or None, from tokens or None, value) - tokens None when not trackable"""
    kind = rng.choice(["add", "add", "remove", "replace", "move", "move", "copy", "copy", "test"])
    path = aim_path(rng, doc, kind in ("add", "move", "copy"))
    frm, val, has_val = None, None, False
    if kind in ("add", "replace"):
        val, has_val = gen_val(rng, rng.choice([0, 0, 1, 2])), True
    elif kind == "test":
        has_val = True
        try:
            cur = t_get(doc, path)
            val = variant_equal(rng, cur) if rng.chance(0.75) else variant_unequal(rng, cur)
        except Fail:
            val = gen_val(rng, 1)
    elif kind in ("move", "copy"):
        locs = locations(doc)
        frm = rng.choice(locs)
        r = rng.random()
        try:
            fv = t_get(doc, frm)
        except Fail:
            fv = None
        if r < 0.12:
            path = frm                                                          # from == path
        elif r < 0.24:
            path = frm + (rng.choice(KEYS + [b"0", b"-", b"1"]),)               # into own child
            if isinstance(fv, list):
                path = frm + (rng.choice([b"0", b"-", b"%d" % len(fv)]),)
        elif r < 0.34 and frm:
            path = frm[:rng.randrange(len(frm))]                                # onto an ancestor
        elif r < 0.44 and frm:
            path = frm[:-1] + (frm[-1] + rng.choice([b"b", b"0", b"~", b"/"]),)  # textual prefix, different token
        elif r < 0.60 and frm:
            try:
                par = t_get(doc, frm[:-1])
            except Fail:
                par = None
            if isinstance(par, list):                                            # inside one array: every index
                n = len(par)
                path = frm[:-1] + (rng.choice([b"%d" % i for i in range(n + 2)] + [b"-"]),)
            elif isinstance(par, dict):
                path = frm[:-1] + (rng.choice(list(par.keys()) + KEYS),)
        elif r < 0.64:
            frm = aim_path(rng, doc, False)                                      # possibly dangling from
        if rng.chance(0.04):
            frm, path = path, frm
    ps, fs = ptr(path), (ptr(frm) if frm is not None else None)
    tp, tf = path, frm
    if rng.chance(0.05):
        ps, tp = mangle(rng, ps), None
    if fs is not None and rng.chance(0.04):
        fs, tf = mangle(rng, fs), None
    return elem(rng, kind, ps, fs, val, has_val), kind, tp, tf, val


def gen_patch_case(rng):
    doc = gen_doc(rng)
    lines = ["doc " + dump(doc)]
    cur = doc
    nops = rng.choice([1, 1, 2, 2, 3, 3, 4, 5, 6, 8])
    alive = True
    for _ in range(nops):
        e, kind, tp, tf, val = gen_op(rng, cur if alive else doc)
        # most operations should succeed so that later ones see the evolved document
        for _retry in range(6):
            ok = True
            try:
                if tp is None or (kind in ("move", "copy") and tf is None):
                    raise Fail()
                nxt = t_apply(cur, kind, tp, tf, val)
            except (Fail, IndexError, KeyError, TypeError, AttributeError):
                ok = False
            if ok or rng.chance(0.2):
                break
            e, kind, tp, tf, val = gen_op(rng, cur)
        lines.append("op " + dump(e))
        if ok and alive:
            cur = nxt
        else:
            alive = alive and ok
    mode = "base" if rng.chance(0.72) else "copy"
    lines.append("run " + mode)
    return {"lines": lines, "keep": 1}


# --------------------------------------------------------------------------- malformed stream
def field_junk(rng):
    """ill-typed values for op/path/from (no double without retained text: see ASSUMPTIONS)"""
    return rng.choice([None, True, False, ("i", 0), ("i", 5), ("u", 1 << 63), ("d", D_ONE, b"1.0"), ("d", D_HALF, b"0.5"),
                       [], {}, [b"add"], [b"/a"], {b"op": b"add"}, [None, ("i", 1), [b"/"]], {b"a/b": [True]}, [[[]]]])


def bad_elem(rng, doc):
    locs = locations(doc)
    p = ptr(rng.choice(locs))
    f = ptr(rng.choice(locs))
    k = rng.randrange(16)
    good_kind = rng.choice(["add", "remove", "replace", "move", "copy", "test"])
    v = gen_val(rng, 1)
    if k == 0:
        return rng.choice([None, True, ("i", 5), b"add", [], [b"op"], ("d", D_ONE, b"1.0"), {}])       # not an operation object
    if k == 1:
        return {K_PATH: p, K_VALUE: v, K_FROM: f}                                                   # no op
    if k == 2:
        return {K_OP: None, K_PATH: p, K_VALUE: v, K_FROM: f}                                       # null op
    if k == 3:
        return {K_OP: field_junk(rng), K_PATH: p, K_VALUE: v, K_FROM: f}                            # ill-typed op
    if k == 4:
        return {K_OP: rng.choice([b"", b"ADD", b"Add", b"add ", b" add", b"addx", b"ad", b"mov", b"delete", b"tes", b"copy\n",
                                   b"remove2", b"null", b"\xff"]), K_PATH: p, K_VALUE: v, K_FROM: f}  # unknown op
    if k == 5:
        return {K_OP: good_kind.encode(), K_VALUE: v, K_FROM: f}                                    # no path
    if k == 6:
        return {K_OP: good_kind.encode(), K_PATH: None, K_VALUE: v, K_FROM: f}                      # null path
    if k == 7:
        return {K_OP: good_kind.encode(), K_PATH: field_junk(rng), K_VALUE: v, K_FROM: f}           # ill-typed path
    if k == 8:
        return {K_OP: rng.choice([b"add", b"replace", b"test"]), K_PATH: p}                          # no value
    if k == 9:
        return {K_OP: rng.choice([b"move", b"copy"]), K_PATH: p}                                     # no from
    if k == 10:
        return {K_OP: rng.choice([b"move", b"copy"]), K_PATH: p, K_FROM: None}                       # null from
    if k == 11:
        return {K_OP: rng.choice([b"move", b"copy"]), K_PATH: p, K_FROM: field_junk(rng)}            # ill-typed from
    if k == 12:
        j = field_junk(rng)
        return {K_OP: rng.choice([b"move", b"copy"]), K_PATH: j, K_FROM: copy.deepcopy(j)}           # same junk twice
    if k == 13:
        return {K_OP: (good_kind + "\x00zz").encode(), K_PATH: p, K_VALUE: v, K_FROM: f}            # NUL inside op (known finding)
    if k == 14:
        return {K_OP: good_kind.encode(), K_PATH: mangle(rng, p), K_VALUE: v, K_FROM: mangle(rng, f)}
    return {K_OP: good_kind.encode(), K_PATH: p, K_VALUE: None, K_FROM: f}                            # null value is a value


def gen_malformed_case(rng):
    doc = gen_doc(rng)
    lines = ["doc " + dump(doc)]
    r = rng.random()
    if r < 0.25:
        # an arbitrary value as the patch document
        pv = gen_val(rng, 2, plain_double=False) if rng.chance(0.6) else rng.choice(
            [None, {}, {K_OP: b"add", K_PATH: b"/a", K_VALUE: ("i", 1)}, b"[]", ("i", 0), True, [[]], [None], [[{K_OP: b"remove", K_PATH: b""}]]])
        lines.append("runraw %s %s" % (rng.choice(["base", "base", "copy"]), dump(pv)))
        return {"lines": lines, "keep": 1}
    cur = doc
    n = rng.choice([1, 1, 2, 3, 4])
    badpos = rng.randrange(n)
    for i in range(n):
        if i == badpos or rng.chance(0.15):
            lines.append("op " + dump(bad_elem(rng, cur)))
        else:
            e, kind, tp, tf, val = gen_op(rng, cur)
            lines.append("op " + dump(e))
            try:
                if tp is not None and not (kind in ("move", "copy") and tf is None):
                    cur = t_apply(cur, kind, tp, tf, val)
            except (Fail, IndexError, KeyError, TypeError, AttributeError):
                pass
    lines.append("run " + rng.choice(["base", "base", "base", "copy"]))
    return {"lines": lines, "keep": 1}


def gen_api_case(rng):
    """argument checks of json_patch_apply"""
    doc = gen_doc(rng)
    k = rng.randrange(4)
    lines = ["doc " + dump(None if k == 0 else doc)]
    if rng.chance(0.5):
        lines.append("op " + dump(elem(rng, "add", b"", None, ("i", 1), True)))
    lines.append("run " + ("both" if k == 1 else rng.choice(["base", "copy"]) if k == 0 else "base"))
    return {"lines": lines, "keep": 1}


def gen_known_case(rng):
    """inputs on which a recorded finding manifests (kept at low frequency)"""
    k = rng.randrange(4)
    if k == 0:
        first = rng.choice([elem(rng, "add", b"", None, None, True), elem(rng, "replace", b"", None, None, True),
                            elem(rng, "remove", b""), elem(rng, "copy", b"", b"/n")])
        second = rng.choice([elem(rng, "test", b"", None, None, True), elem(rng, "replace", b"", None, ("i", 1), True),
                             elem(rng, "copy", b"", b""), elem(rng, "move", b"", b""), elem(rng, "remove", b""),
                             elem(rng, "add", b"", None, {b"a": None}, True)])
        return {"lines": ["doc " + dump({b"n": None, b"a": ("i", 1)}), "op " + dump(first), "op " + dump(second), "run base"], "keep": 1}
    if k == 1:
        return {"lines": KNOWN[1]["witness"][:1] + ["op " + dump(elem(rng, "add", rng.choice([b"/~2", b"/~", b"/a~b", b"/~02"]), None, ("i", 1), True)),
                                                    "op " + dump(elem(rng, "test", b"/~02", None, ("i", 1), True)), "run base"], "keep": 1}
    if k == 2:
        return {"lines": list(KNOWN[2]["witness"]), "keep": 1}
    return {"lines": ["doc " + dump({b"a": ("i", 1), b"d": ("d", D_ONE, None), b"l": [("i", 5)]}),
                      "op " + dump(elem(rng, "test", rng.choice([b"/a", b"/d", b"/l", b""]),
                                        None, rng.choice([("d", D_ONE, None), ("i", 1), [("d", 0x4014000000000000, None)], ("d", D_ONE, b"1.0")]), True)),
                      "run base"], "keep": 1}


# --------------------------------------------------------------------------- small-scope enumeration
ENUM_DOC = {b"a": {b"b": [("i", 1), ("i", 2)], b"n": None}, b"ab": ("i", 3), b"a/b": None, b"m~n": b"s",
            b"c": [("i", 10), None, ("i", 30)], b"": ("i", 0)}
ENUM_PATHS = [b"", b"/a", b"/a/b", b"/a/b/0", b"/a/b/1", b"/a/b/2", b"/a/b/-", b"/a/n", b"/ab", b"/a~1b", b"/m~0n", b"/",
              b"/c", b"/c/0", b"/c/1", b"/c/2", b"/c/3", b"/c/4", b"/c/-", b"/x", b"/a/x", b"/a/b/x", b"/ab/x", b"/c/01",
              b"/c/18446744073709551616", b"/c/18446744073709551617", b"a", b"/a/", b"/c/1/0"]
ENUM_PATHS_Q = [b"", b"/a", b"/a/b", b"/a/b/0", b"/a/b/-", b"/ab", b"/a~1b", b"/c/0", b"/c/1", b"/c/2", b"/c/3", b"/c/-", b"/x",
                b"/c/18446744073709551617"]


def enum_cases(tier):
    paths = ENUM_PATHS_Q if tier == "quick" else ENUM_PATHS
    d = "doc " + dump(ENUM_DOC)

    class NoRng:
        def chance(self, p):
            return False

        def shuffle(self, m):
            pass
    nr = NoRng()
    for kind in ("move", "copy"):
        for f in paths:
            for p in paths:
                yield {"lines": [d, "op " + dump(elem(nr, kind, p, f)), "run base"], "keep": 1}
    vals = [None, ("i", 1), {b"b": [("i", 1), ("i", 2)], b"n": None}, [("i", 10), None, ("i", 30)]]
    for kind in ("add", "replace", "test"):
        for p in paths:
            for v in (vals if tier != "quick" else vals[:2]):
                yield {"lines": [d, "op " + dump(elem(nr, kind, p, None, v, True)), "run base"], "keep": 1}
    for p in paths:
        yield {"lines": [d, "op " + dump(elem(nr, "remove", p)), "run base"], "keep": 1}
    if tier != "quick":
        # every two-operation sequence of move/copy/remove/add over a smaller alphabet, in copy_from mode
        small = [b"", b"/a", b"/a/b", b"/a/b/0", b"/ab", b"/c/0", b"/c/2", b"/c/-", b"/x"]
        ops = [elem(nr, "remove", p) for p in small] + [elem(nr, "add", p, None, ("i", 9), True) for p in small] + \
              [elem(nr, k, p, f) for k in ("move", "copy") for f in small[:6] for p in small]
        for a in ops:
            for b in ops:
                yield {"lines": [d, "op " + dump(a), "op " + dump(b), "run copy"], "keep": 1}


def gen(rng, tier):
    for k in KNOWN:
        yield {"lines": list(k["witness"]), "keep": 1}
    n = 12000 if tier == "quick" else 100000
    for _ in range(n):
        yield gen_patch_case(rng)
    for _ in range(n):
        yield gen_malformed_case(rng)
    for _ in range(n // 50):
        yield gen_api_case(rng)
    for _ in range(n // 50):
        yield gen_known_case(rng)
    for c in enum_cases(tier):
        yield c
