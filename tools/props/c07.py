"""C07 arraylist / JSON array as a sequence: generator for the correspondence run
(model: lean/JsonC/Model/Arraylist.lean, spec: lean/JsonC/Spec/Seq.lean)."""
import itertools, re

PROP = "C07"
HARNESS = "al"
COMPONENT = "al"
TIE = ["TranslatedAl", "TranslatedCtor"]       # Lemmas/TranslatedAl.lean: Model/Arraylist.lean = arraylist.c growth/shrink as translated by tools/extract/c2lean.py
VARIANT = "asan"
WRAPS = ("malloc", "calloc", "realloc")
SIZE_MAX = (1 << 64) - 1
PTR = 8
MAXLEN = SIZE_MAX // PTR
INT_MAX = 2147483647
LIMIT_DEFAULT = 8 << 20
RULE = ("histories of array ops (add / put_idx / insert_idx / del_idx / shrink / get_idx / length / sort / bsearch / free), "
        "driven on arraylist.c directly (free_fn logs the released ids) and through the json_object_array_* API "
        "(releases observed as reference-count drops), from initial capacities 0,1,2,32 (and a few others), with "
        "indices and counts drawn from {0, len-1, len, len+1, size-1, size, size+1, 2*size, 2^61-2, 2^61+-1, SIZE_MAX-1, SIZE_MAX}; "
        "after every op the length, every element, three reads past the end, the release log and the capacity are compared; "
        "non-trivial = the model run hit >= 4 distinct branch tags; distinct = distinct op text")
ASSUMPTIONS = ["malloc/realloc grant every request of at most `limit` bytes (8 MiB unless the history sets it) and refuse larger ones "
               "(the harness enforces exactly that with --wrap; allocation failure proper is property C08)",
               "malloc(0) returns a usable pointer (glibc)",
               "qsort sorts and bsearch searches as ISO C specifies, for the total order 'NULL first, then by id' used by the run",
               "requests the model predicts to allocate more than ~1 MiB are generated rarely (at most one per history)"]
TRUSTED = ["glibc qsort, bsearch, memmove, memset, realloc", "the allocator cap (--wrap=malloc,calloc,realloc in harness/al.c)"]
NONTRIVIAL_MIN_TAGS = 4
SLICE = 2000

MANIFEST = dict(
   text="Lean 4 theorems over a checked-C model of arraylist.c (size_t arithmetic with explicit wrap checks, slots uninit|value, "
        "free_fn calls logged): for every list state satisfying the representation invariant, every allocator behaviour and every "
        "size_t argument, add, put_idx, insert_idx, del_idx, shrink, get_idx, length, sort, bsearch and free do not fault (no size_t "
        "wrap, no access outside the allocation, no read of an uninitialised slot), keep the invariant and refine the plain list "
        "specification Seq (length and every index agree, reads past the end give null, put beyond the end pads with nulls, insert "
        "shifts, delete-range fails without change when out of range incl. idx+count overflow), a failing call leaves the state "
        "unchanged, and the release log is exactly the overwritten/deleted non-null elements in order; sort yields an ordered "
        "permutation and bsearch finds an element iff one is present, under the ISO C qsort/bsearch contracts as hypotheses "
        "(discharged for the reference implementations); all lifted by induction to every finite history from every initial "
        "capacity including 0, plus conservation of elements (inserted = live + released, as multisets). Tied to the code by "
        "literals regenerated from arraylist.c on every run and by a differential run of model, spec and the ASan/UBSan-built "
        "implementation (arraylist.c directly and through the json_object_array_* API) on generated histories.",
   note="Trusted: Lean kernel + propext/Classical.choice/Quot.sound; tools/extract; the differential harness and its allocator cap; "
        "glibc qsort/bsearch/realloc. Allocation is a parameter of the model: refusals are covered by 'fails unchanged', exhaustive "
        "failure injection is C08. The model is hand-written: theorems are about the model, the correspondence run is testing. Tie by translation (new): array_list_expand_internal and array_list_shrink are translated from clang's typed AST of the current source into Lean on every run (tools/extract/c2lean.py -> Generated/Translated.lean; size_t arithmetic wraps modulo 2^64) and Lemmas/TranslatedAl.lean proves for all states and arguments that Model/Arraylist.lean returns the same value, leaves the same size / length and asks realloc for exactly new_size * sizeof(void *) bytes, and that no wrap-around occurs on a defined run (expandInternal_agrees, shrink_agrees, delIdx_agrees with its release loop by induction, add_agrees, putIdx_agrees, insertIdx_agrees: every function of arraylist.c that computes a size or a length); rebuilt and axiom-audited with the property theorems.",
   technique="Lean 4 proof (invariant + refinement, induction over histories) + model/implementation correspondence run + agreement theorems with Lean definitions translated from the current C source (clang AST) on every run",
   design="6/C07")

DEFECTS = []


def compare_line(case, i, il, m, s, tags):
    """spec field = alternatives ' || '-separated; 'oom:' alternatives are allowed only when the harness saw its
    allocator refuse a request during this op (trailing ' oom=1' of the implementation line)."""
    oom = il.endswith(" oom=1")
    il_cmp = re.sub(r" oom=[01]$", "", il)
    impl_spec = il_cmp.split(" ## ")[0]
    if m.startswith("FAULT"):
        return ("spec", "the Lean model reaches undefined behaviour / a size_t wrap here: " + m)
    if s not in ("", "*"):
        alts = s.split(" || ")
        allowed = [a for a in alts if not a.startswith("oom:")]
        if oom:
            allowed += [a[4:] for a in alts if a.startswith("oom:")]
        if impl_spec not in allowed:
            return ("spec", "implementation differs from the specification (allowed: %s)" % " | ".join(allowed))
    if il_cmp != m:
        kind = "spec" if impl_spec != m.split(" ## ")[0] and s in ("", "*") else "model"
        return (kind, "implementation differs from the Lean model")
    return None


class Sim:
    """mirror of the capacity policy, used only to aim the generator (not an oracle)"""
    def __init__(self, cap, limit):
        self.len, self.size, self.limit = 0, cap, limit
        self.alive = cap >= 0 and cap * PTR <= limit

    def expand(self, mx):
        if mx < self.size:
            return True
        ns = max(2 * self.size, mx)
        if ns > MAXLEN or ns * PTR > self.limit:
            return False
        self.size = ns
        return True

    def put(self, i):
        if i > SIZE_MAX - 1 or not self.expand(i + 1):
            return
        self.len = max(self.len, i + 1)

    def ins(self, i):
        if i >= self.len:
            return self.put(i)
        if self.expand(self.len + 1):
            self.len += 1

    def add(self):
        if self.expand(self.len + 1):
            self.len += 1

    def dele(self, i, n):
        if i < self.len and i + n <= self.len:
            self.len -= n

    def shrink(self, n):
        if n >= MAXLEN - self.len:
            return
        ns = self.len + n
        if ns == self.size:
            return
        if ns > self.size:
            self.expand(ns)
            return
        ns = max(ns, 1)
        if ns * PTR <= self.limit:
            self.size = ns


HUGE = [SIZE_MAX, SIZE_MAX - 1, (1 << 61) - 1, (1 << 61) + 1, (1 << 61) - 2, 1 << 61, 1 << 63, (1 << 60) + 5, 1 << 32]


def pick_index(rng, s, allow_large):
    """index / count aimed at the current bounds"""
    r = rng.random()
    if r < 0.10:
        return rng.choice(HUGE)
    if r < 0.13:
        # SIZE_MAX-adjacent relative to the length (idx + count wrap-around)
        return SIZE_MAX - rng.choice([0, 1, max(0, s.len - 1), s.len, s.len + 1])
    if allow_large and r < 0.16:
        return rng.choice([1000, 4097, 65536, 99999, rng.randrange(1000, 100000)])
    c = [0, 1, s.len - 1, s.len, s.len + 1, s.size - 1, s.size, s.size + 1, 2 * s.size, 2 * s.size - 1,
         s.len // 2, s.len + 2, rng.randrange(0, max(1, s.len + 3)), rng.randrange(0, max(1, 2 * s.size + 3))]
    v = rng.choice(c)
    return max(0, min(v, 400))


def gen_history(rng, nops, j=False):
    pre = "j" if j else ""
    lines = []
    limit = LIMIT_DEFAULT
    if rng.chance(0.06):
        limit = rng.choice([256, 512, 1024, 4096, 300, 64 * 1024])
        lines.append("limit %d" % limit)
    cap = rng.choice([0, 1, 2, 32, 0, 1, 2, 32, 3, 4, 7, 100, -1])
    lines.append("%snew %d" % (pre, cap))
    s = Sim(cap, limit)
    nextid = [1]
    used = []
    large_left = [1 if rng.chance(0.04) else 0]

    def val():
        r = rng.random()
        if r < 0.12:
            return 0
        if used and r < 0.20:
            return rng.choice(used)
        v = nextid[0]
        nextid[0] += 1
        used.append(v)
        return v

    def idx(k):
        allow = large_left[0] > 0 and k >= nops - 6
        v = pick_index(rng, s, allow)
        if 1000 <= v <= 100000:
            large_left[0] -= 1
        return v

    for k in range(nops):
        r = rng.random()
        if r < 0.22:
            lines.append("%sadd %d" % (pre, val())); s.add()
        elif r < 0.40:
            i = idx(k); lines.append("%sput %d %d" % (pre, i, val())); s.put(i)
        elif r < 0.55:
            i = idx(k); lines.append("%sins %d %d" % (pre, i, val())); s.ins(i)
        elif r < 0.72:
            i = idx(k)
            n = rng.choice([0, 1, 1, 2, s.len - i, s.len - i + 1, s.len - i - 1, s.len, rng.choice(HUGE), SIZE_MAX - i, SIZE_MAX - i + 1,
                            rng.randrange(0, 5)])
            n = max(0, min(n, SIZE_MAX))
            lines.append("%sdel %d %d" % (pre, i, n)); s.dele(i, n)
        elif r < 0.80:
            n = rng.choice([0, 0, 1, 2, s.size - s.len, max(0, s.size - s.len - 1), s.size - s.len + 1, 2 * s.size, 31, 100] +
                           ([INT_MAX, INT_MAX - 1] if j else [MAXLEN, MAXLEN - 1, MAXLEN - s.len, max(0, MAXLEN - s.len - 1),
                                                             max(0, MAXLEN - s.len - 2), MAXLEN + 1, SIZE_MAX, SIZE_MAX - 1, 1 << 60]))
            n = max(0, n)
            lines.append("%sshrink %d" % (pre, n)); s.shrink(n)
        elif r < 0.86:
            lines.append("%sget %d" % (pre, idx(k)))
        elif r < 0.88:
            lines.append("%slen" % pre)
        elif r < 0.93:
            # `sortd`: the same comparator function answering in descending order (round-6 seed C07-9: a sort that is
            # skipped because "nothing was stored since the last sort with this comparator")
            lines.append("%ssort%s" % (pre, "d" if rng.chance(0.35) else ""))
        elif r < 0.99:
            lines.append("%sbs %d" % (pre, rng.choice(used + [0, nextid[0]]) if used else 0))
        else:
            lines.append("%sfree" % pre)
            if rng.chance(0.5):
                cap = rng.choice([0, 1, 2, 32])
                lines.append("%snew %d" % (pre, cap)); s = Sim(cap, limit)
    if rng.chance(0.5):
        lines.append("%sfree" % pre)
    return lines


def sorted_history(rng, j):
    """fill, sort, then search for present and absent keys (bsearch on a sorted array)"""
    pre = "j" if j else ""
    lines = ["%snew %d" % (pre, rng.choice([0, 1, 2, 32]))]
    ids = rng.sample(range(1, 200), rng.randrange(0, 25))
    for v in ids:
        lines.append("%sadd %d" % (pre, v if rng.chance(0.9) else 0))
    if rng.chance(0.3) and ids:
        lines.append("%sput %d %d" % (pre, len(ids) + rng.randrange(0, 4), rng.randrange(200, 300)))
    if rng.chance(0.3):
        lines.append("%ssort%s" % (pre, "d" if rng.chance(0.5) else ""))
        lines.append("%ssort%s" % (pre, "d" if rng.chance(0.5) else ""))
        lines.append("%sget %d" % (pre, rng.randrange(0, 3)))
    lines.append("%ssort" % pre)
    for _ in range(rng.randrange(1, 8)):
        lines.append("%sbs %d" % (pre, rng.choice(ids + [0, 1, 199, 250, rng.randrange(0, 300)]) if ids else 0))
    return lines


# small-scope exhaustive part: every sequence over this alphabet from four start states
ALPHABET = ["add 91", "put 1 92", "put 6 93", "ins 0 94", "ins 2 0", "del 0 1", "del 1 2", "del 1 %d" % SIZE_MAX,
            "shrink 0", "sort", "sortd"]
STARTS = [["new 0"], ["new 1", "add 11"], ["new 2", "add 21", "add 22", "put 4 23"],
          ["new 32", "add 35", "add 34", "add 0", "add 33", "add 32", "add 31", "del 4 2"]]


def gen(rng, tier):
    quick = tier == "quick"
    n = 5000 if quick else 60000
    for i in range(n):
        yield {"lines": gen_history(rng, rng.choice([5, 15, 30, 50, 50]), j=rng.chance(0.3))}
    for i in range(600 if quick else 6000):
        yield {"lines": sorted_history(rng, j=rng.chance(0.4))}
    depth = 3 if quick else 5
    for st in STARTS:
        for d in range(1, depth + 1):
            for seq in itertools.product(ALPHABET, repeat=d):
                yield {"lines": st + list(seq), "keep": len(st)}
    # the same small scope through the json_object API (shallower)
    jdepth = 3 if quick else 4
    for st in STARTS:
        for d in range(1, jdepth + 1):
            for seq in itertools.product(ALPHABET, repeat=d):
                yield {"lines": ["j" + l for l in st + list(seq)], "keep": len(st)}
