"""C20 fd I/O: generator for the correspondence run (model: lean/JsonC/Model/FdIO.lean).

The serializer and the parser are parameters of the model.  The generator therefore asks the freshly built
harness (op `ser`) for the serialization of every generated tree and puts it on the op line; the harness
re-checks it against the library on every `write` (ser=ok).  Reads that reach the parser are compared by
the harness with its own in-memory json_tokener_parse_ex of the same bytes (same=1)."""
import os, subprocess
from common import hexs

PROP = "C20"
HARNESS = "fdio"
COMPONENT = "fdio"
TIE = ["TranslatedFd", "TranslatedFdRead"]       # Lemmas/TranslatedFd.lean: Model/FdIO.lean write side = _json_object_to_fd as translated by tools/extract/c2lean.py
VARIANT = "asan"
WRAPS = ("read", "write", "json_tokener_parse_ex", "malloc", "calloc", "realloc", "free", "strdup", "vasprintf")
EXTRA_FLAGS = ("-pthread",)
SLICE = 150
TIMEOUT = 300
RULE = ("documents (generated trees serialized by the library under several flag sets; valid, truncated, garbage, "
        "deeply nested and exactly 4095/4096/4097/8191/8192/8193-byte texts) x transfer schedules imposed through "
        "--wrap=read,write: everything at once, 1 byte per call, fixed 4095/4096/4097-byte pieces, random sizes, "
        "zero-length writes, a single split at every position (small documents), an injected failure at every call "
        "index, end of file at every position; plus unopenable paths, NULL objects, a failing serializer, real files "
        "and real pipes; non-trivial = the model run hit >= 2 distinct branch tags; distinct = distinct op text")
ASSUMPTIONS = ["a write(2) call that does not fail accepts at least one byte (otherwise the C loop does not terminate: "
               "theorem write_zero_never_returns); schedules with finitely many zero returns are exercised",
               "read(2) stores at most the count it was asked for",
               "malloc/realloc succeed (allocation failure is property C08); leak freedom is checked per op by the "
               "harness (live heap blocks before/after each library call through --wrap=malloc,calloc,realloc,free,"
               "strdup,vasprintf, open descriptors through /proc/self/fd), by LeakSanitizer at harness exit and by "
               "the model's ledger (live = [], fdsLeft = 0)",
               "serializer and parser are parameters: json_object_to_json_string_ext / json_tokener_parse_ex are "
               "taken as they are (properties C01-C04 cover them)",
               "less than INT_MAX-8 bytes are read in the correspondence run (the refusal path of the print buffer "
               "is covered by theorem io_errors_reported and by C19)"]
TRUSTED = ["glibc open/close, json-c's strerror override (_JSON_C_STRERROR_ENABLE), ld --wrap interposition of "
           "read/write/json_tokener_parse_ex and of the allocation entry points"]
DEFECTS = []
# behaviours seen while modelling that do not contradict C20 (the model reproduces each of them exactly)
OBSERVATIONS = [
    "write(2) returning 0 for ever makes _json_object_to_fd spin (wpos += 0): theorem write_zero_never_returns; "
    "finite runs of zero returns are retried correctly",
    "json_object_to_json_string_ext returning NULL makes _json_object_to_fd return -1 without setting a message "
    "(op: write 0 [i1] NULL -)",
    "a descriptor holding the text `null` yields NULL *and* the message 'json_tokener_parse_ex failed: success' "
    "(same as the in-memory parse: NULL object, tokener error success)",
    "a descriptor holding `123` (no byte after the number) yields NULL / 'continue', exactly as one "
    "json_tokener_parse_ex(tok, buf, len) call does; json_tokener_parse(\"123\") succeeds because it feeds the NUL",
    "in_depth < 1 other than -1 fails with 'unable to allocate json_tokener(depth=..)' and the text of whatever errno "
    "held at entry",
]

MANIFEST = dict(
    text="Lean 4 theorems over a checked-C model of json_util.c's descriptor I/O, with the serializer, the tokener and "
         "the operating system as parameters: for every serialization and every sequence of write(2) answers the "
         "descriptor receives exactly the specification's bytes, chained call by call (write_refines_spec); under "
         "'a successful write accepts >= 1 byte' the loop ends within strlen calls with 0 and the whole text, or -1, "
         "a proper prefix and a non-empty message when call k fails (write_exact; write_zero_never_returns shows the "
         "assumption is needed); for every data delivered in pieces of 1..JSON_FILE_BUF_SIZE bytes then end of file "
         "the result, the buffer handed to the parser, the depth and the error channel are those of one in-memory "
         "parse (read_eq_memory_parse, read_buffer_is_concatenation, by induction over the schedule using the C19 "
         "print-buffer theorems); every NULL/-1 outcome (read error, unopenable file, parser NULL, tokener creation, "
         "buffer refusal, NULL object) carries a non-empty last-error message and releases buffer, tokener and "
         "descriptor (io_errors_reported, read_error_reported, parse_error_reported). Tied to the code by message "
         "formats / buffer sizes regenerated from json_util.c and a differential run under --wrap=read,write.",
    note="Trusted: Lean kernel + propext/Classical.choice/Quot.sound; tools/extract; the differential harness and ld "
         "--wrap; glibc. Serializer and parser are parameters (other properties). Allocation failure is C08. The model "
         "is hand-written: theorems are about the model, the correspondence run is testing. Tie by translation (new): _json_object_to_fd is translated from clang's typed AST of the current source into Lean on every run (tools/extract/c2lean.py -> Generated/Translated.lean; the write loop becomes a recursive definition over explicit fuel, write's answers are inputs, one per iteration) and Lemmas/TranslatedFd.lean proves by induction over the schedule of OS answers that Model/FdIO.lean's write side returns the same value and issues exactly the same write(fd, json_str + off, req) calls in order (writeLoop_agrees, toFdCore_agrees); rebuilt and axiom-audited with the property theorems. The read side (json_object_from_fd_ex) is not translated yet.",
    technique="Lean 4 proof (loop invariants by induction over OS schedules, refinement of a schedule-level spec) + "
              "model/implementation correspondence run with interposed read/write + agreement theorems with Lean definitions translated from the current C source (clang AST) on every run",
    design="6/C20")

_H = {"bin": None, "env": None}


def _workdir(C):
    d = os.path.join(C.BUILD, "scratch", "fdio")
    os.makedirs(d, exist_ok=True)
    return os.path.join(d, "work-%d" % os.getpid())


def ENV(C):
    return {"VERIF_FDIO_DIR": _workdir(C), "_JSON_C_STRERROR_ENABLE": "1"}


def _cleanup(C):
    import shutil
    for suffix in ("", "-ser"):
        shutil.rmtree(_workdir(C) + suffix, ignore_errors=True)


def prepare(C, tier):
    import atexit
    atexit.register(_cleanup, C)      # a crashed or killed harness leaves its scratch directory behind
    _H["bin"] = C.build_harness(HARNESS, VARIANT, EXTRA_FLAGS, WRAPS)
    e = dict(os.environ)
    e.update(ENV(C))
    e["VERIF_FDIO_DIR"] = _workdir(C) + "-ser"
    e.setdefault("ASAN_OPTIONS", "detect_leaks=1:abort_on_error=0:exitcode=99")
    _H["env"] = e


def serialize(pairs):
    """[(flags, tree)] -> [hex] using the library itself (the model's `ser` parameter)"""
    if not pairs:
        return []
    if _H["bin"] is None:
        import common as C
        prepare(C, "quick")
    inp = "".join("ser %d %s\n" % (f, t) for f, t in pairs)
    r = subprocess.run([_H["bin"]], input=inp, stdout=subprocess.PIPE, stderr=subprocess.PIPE, text=True,
                       env=_H["env"], timeout=600)
    out = r.stdout.split("\n")
    if r.returncode != 0 or len(out) < len(pairs):
        raise RuntimeError("serializer pre-pass failed rc=%s: %s" % (r.returncode, r.stderr[-800:]))
    return out[:len(pairs)]


# ----------------------------------------------------------------------------- trees
INT64_MAX = 2 ** 63 - 1


def gen_scalar(rng):
    k = rng.random()
    if k < 0.08:
        return "n"
    if k < 0.16:
        return rng.choice(["t", "f"])
    if k < 0.40:
        return "i%d" % rng.choice([0, 1, -1, 42, -INT64_MAX - 1, INT64_MAX, rng.randrange(-10 ** 6, 10 ** 6),
                                   rng.randrange(-2 ** 63, 2 ** 63)])
    if k < 0.46:
        return "u%d" % rng.choice([INT64_MAX + 1, 2 ** 64 - 1, rng.randrange(2 ** 63, 2 ** 64)])
    if k < 0.58:
        bits = rng.choice([0x3ff8000000000000, 0x0000000000000000, 0x8000000000000000, 0x4059000000000000,
                           0x3fb999999999999a, 0x7fefffffffffffff, 0x0000000000000001, 0x7ff0000000000000,
                           0xfff0000000000000, 0x7ff8000000000000, rng.randrange(0, 2 ** 64)])
        return "d%016x" % bits
    n = rng.choice([0, 1, 3, 8, 20, rng.randrange(0, 60)])
    if rng.chance(0.5):
        b = bytes(rng.choice(b"abcXYZ 09/\\\"\n\t\x00\x01\x7f") for _ in range(n))
    else:
        b = "".join(rng.choice(["a", "é", "€", "😀", "/", " "]) for _ in range(n)).encode()
    return "s" + hexs(b)


def gen_tree(rng, depth, width):
    if depth <= 0 or rng.chance(0.25):
        return gen_scalar(rng)
    n = rng.randrange(0, width + 1)
    if rng.chance(0.5):
        return "[" + ",".join(gen_tree(rng, depth - 1, width) for _ in range(n)) + "]"
    keys, items = set(), []
    for _ in range(n):
        k = bytes(rng.choice(b"abcdefgh_/ \"") for _ in range(rng.choice([0, 1, 2, 5])))
        if k in keys:
            continue
        keys.add(k)
        items.append(hexs(k) + ":" + gen_tree(rng, depth - 1, width))
    return "{" + ",".join(items) + "}"


def big_tree(rng, approx):
    """array of strings/ints whose plain serialization is roughly `approx` bytes"""
    items, size = [], 2
    while size < approx:
        if rng.chance(0.6):
            n = rng.choice([5, 30, 100, 400])
            items.append("s" + hexs(bytes(rng.choice(b"abcdefghij klmnop") for _ in range(n))))
            size += n + 3
        else:
            items.append("i%d" % rng.randrange(-10 ** 9, 10 ** 9))
            size += 9
    return "[" + ",".join(items) + "]"


FLAGSETS = [0, 1, 2, 2 | 8, 4, 16, 1 | 2, 2 | 16, 32 | 2]


# ----------------------------------------------------------------------------- schedules
def s2str(s):
    return ",".join(str(x) for x in s) if s else "-"


def calls_of(s, L, cap=None):
    """number of transfer calls a schedule of sizes causes on L bytes (write side: until L delivered)"""
    pos, n = 0, 0
    for x in s:
        if pos >= L:
            break
        n += 1
        if x == "E":
            return n
        if x == "Z":
            continue
        pos += min(x if cap is None else min(x, cap), L - pos)
    if pos < L:
        n += 1
    return n


def base_schedules(rng, L, tier, is_read):
    out = [[]]
    big = tier != "quick"
    one = 700 if not big else 5000
    if 0 < L <= one:
        out.append([1] * L)
    for c in (4095, 4096, 4097):
        if L >= 4000:
            out.append([c] * (L // c + 1))
    for p in sorted({1, 2, L // 2, L - 1, L, L + 1, 4095, 4096, 4097, 8192}):
        if 0 < p <= L + 1:
            out.append([p])
    for _ in range(3 if not big else 8):
        pool = [1, 2, 3, 7, 64, 100, 1000, 4095, 4096, 4097, 5000, max(1, L // 3), max(1, L - 1), L + 5, 10 ** 9]
        s, pos = [], 0
        while pos < L and len(s) < 400:
            x = rng.choice(pool) if rng.chance(0.8) else rng.randrange(1, max(2, L))
            s.append(x)
            pos += x
        out.append(s)
    if not is_read and L > 0:
        out.append(["Z", min(3, L), "Z", "Z", L])
        out.append(["Z"] * 5 + [1] * min(L, 20))
    return out


def error_schedules(rng, base, L, tier, is_read):
    """the base schedule cut at every call index k and continued by a failure"""
    cap = 4096 if is_read else None
    m = calls_of(base, L, cap)
    full = list(base) + [10 ** 9] * (m + 1)
    ks = range(0, m + (1 if is_read else 0))          # a read also fails after the data, before end of file is seen
    if len(ks) > (12 if tier == "quick" else 80):
        ks = sorted(set(rng.sample(list(ks), 10 if tier == "quick" else 60)) | {0, 1, m - 1})
    # the failing call reports EIO, EINTR or EAGAIN: none of them is an end of file, each is reported as a failure
    return [full[:k] + [rng.choice(["E", "E", "I", "A"])] for k in ks if k >= 0]


def eof_schedules(rng, L, tier):
    """end of file (read returns 0) after p bytes, for every p when the document is small"""
    ps = range(0, L + 1) if L <= (40 if tier == "quick" else 400) else \
        sorted({0, 1, L // 2, L - 1, L, 4095, 4096, 4097} & set(range(0, L + 1)))
    out = []
    for p in ps:
        out.append(([p] if p else []) + ["Z"])
    if L > 3:
        out.append([1, 1, 1, "Z", "E"])
    return out


# ----------------------------------------------------------------------------- documents for reading
def pad_doc(rng, n):
    """a valid JSON text of exactly n bytes"""
    k = rng.random()
    if k < 0.4 and n >= 2:
        return b'"' + bytes(rng.choice(b"abc def") for _ in range(n - 2)) + b'"'
    if k < 0.7 and n >= 6:
        return b"[1," + b" " * (n - 6) + b"22]"
    if n >= 8:
        return b'{"k":' + b"\n" * (n - 8) + b"[]}" + b""[:0] + b""
    return b" " * n


def read_docs(rng, tier, ser_texts):
    docs = []
    fixed = [b"", b"null", b" ", b"123", b"123 ", b"[1,2", b"{\"a\":1} trailing", b"\xff\xfe", b"[1,2]\x00[3]", b"tru",
             b"\"abc", b"{\"a\":{\"b\":[1,2,{\"c\":null}]}}", b"[]", b"{}", b"-0.5e3", b"nul", b"[1,,2]", b"\x00"]
    docs += fixed
    # decorations a "helpful" reader might strip or tolerate although the parser proper does not: byte-order marks,
    # an XSSI guard, a shebang line, NULs, a final Ctrl-Z - reading from a descriptor must treat them exactly as the
    # in-memory parse of the same bytes does
    BOM = b"\xef\xbb\xbf"
    docs += [BOM, BOM[:2], BOM + b"[1]", BOM + b"{}", BOM + b" null", BOM + BOM + b"1", b"\xfe\xff[1]", b"\xff\xfe[\x001\x00]\x00",
             b")]}'\n[1]", b"#!x\n[1]", b"[1]\x1a", b"\x00[1]", b"\r\n[1]\r\n", b"[1]" + BOM]
    for t in ser_texts:
        docs.append(t)
        if t and rng.chance(0.08):
            docs.append(rng.choice([BOM, b"\xfe\xff", b")]}'\n", b"\x00"]) + t)
        if t and rng.chance(0.3):
            docs.append(t[:rng.randrange(0, len(t))])
        if rng.chance(0.15):
            docs.append(t + b"\n")
    for n in (4095, 4096, 4097, 8191, 8192, 8193) + ((12287, 12288, 12289, 40000) if tier != "quick" else ()):
        d = pad_doc(rng, n)
        assert len(d) == n, (n, len(d))
        docs.append(d)
    for _ in range(4 if tier == "quick" else 30):
        docs.append(bytes(rng.randrange(256) for _ in range(rng.choice([1, 5, 40, 300]))))
    return docs


def nest(k, inner=b"1"):
    return b"[" * k + inner + b"]" * k


def depth_cases():
    """(depth argument, text) around the limit: exactly at, one below, one above"""
    out = []
    for d in ("d", "-1"):
        for k in (31, 32, 33):
            out.append((d, nest(k)))
    for d in (1, 2, 5, 40):
        for k in (d - 1, d, d + 1):
            if k >= 0:
                out.append((str(d), nest(k)))
    for d in ("0", "-2", "-100"):
        out.append((d, b"[1]"))
    out.append(("3", b'{"a":{"b":{"c":1}}}'))
    out.append(("3", b'{"a":{"b":1}}'))
    return out


# ----------------------------------------------------------------------------- cases
def gen(rng, tier):
    """Every op is its own case (the message buffer is cleared before each op, ops are independent), so
    each op is judged by the specification on its own; the buckets are interleaved so that every kind of
    op shows up early in the run."""
    buckets = gen_buckets(rng, tier)
    # a few short multi-op cases first (they also serve as the evidence samples)
    yield {"lines": ["write 0 n - -", "write 0 n - E", "tofile 0 n - %s ok -" % hexs(b"out.json"),
                     "tofile 0 n - %s ENOENT -" % hexs(b"no-such-dir/out.json"),
                     "write 0 [i1] NULL -", "write 2 {61:[i1]} NULL 1,E", "tofile 0 [i1] NULL %s ok -" % hexs(b"out.json")]}
    yield {"lines": ["write 0 [i1,s61] 5b312c2261225d 1,2,Z,100", "write 0 [i1,s61] 5b312c2261225d 1,2,E",
                     "read d 5b312c2261225d 1,1,1", "read d 5b312c2261225d 2,E", "read 1 5b5b315d5d -",
                     "read 0 5b5b315d5d -", "read d 5b312c 2,Z"]}
    names = sorted(buckets)
    idx = {n: 0 for n in names}
    left = sum(len(buckets[n]) for n in names)
    while left:
        for n in names:
            # big buckets advance faster so that the interleaving stays roughly proportional
            step = max(1, len(buckets[n]) // 400)
            for _ in range(step):
                if idx[n] < len(buckets[n]):
                    yield {"lines": [buckets[n][idx[n]]]}
                    idx[n] += 1
                    left -= 1


def gen_buckets(rng, tier):
    quick = tier == "quick"
    B = {"depth": [], "write": [], "write-err": [], "write-split": [], "tofile": [], "read": [], "read-err": [],
         "read-eof": [], "read-split": [], "fromfile": [], "pipe": []}
    # ---- depth limit applied
    for (dep, text) in depth_cases():
        for s in ([], [1] * len(text), [3, 1, 2]):
            B["depth"].append("read %s %s %s" % (dep, hexs(text), s2str(s)))
    # ---- trees and their serializations (pre-pass through the library)
    trees = ["[]", "{}", "i0", "s-", "[n]", "t", "{2d:n}"]
    for _ in range(250 if quick else 600):
        trees.append(gen_tree(rng, rng.choice([1, 2, 3, 4]), rng.choice([2, 4, 6])))
    for approx in ([4096, 9000] if quick else [4096, 8192, 9000, 20000, 70000]):
        trees.append(big_tree(rng, approx))
    pairs = []
    for t in trees:
        for f in ([0] + rng.sample(FLAGSETS[1:], 1 if quick else 3)):
            pairs.append((f, t))
    sers = serialize(pairs)
    ser_texts = []

    # ---- writes
    for (f, t), sh in zip(pairs, sers):
        if sh == "NULL":
            continue
        L = 0 if sh == "-" else len(sh) // 2
        if L <= 20000:
            ser_texts.append(bytes.fromhex(sh) if sh != "-" else b"")
        bases = base_schedules(rng, L, tier, False)
        for s in bases:
            B["write"].append("write %d %s %s %s" % (f, t, sh, s2str(s)))
        for b in rng.sample(bases, min(len(bases), 2 if quick else 4)):
            if calls_of(b, L) > (60 if quick else 600):
                continue
            for s in error_schedules(rng, b, L, tier, False):
                B["write-err"].append("write %d %s %s %s" % (f, t, sh, s2str(s)))
        if L <= (24 if quick else 120):
            for p in range(1, L):
                B["write-split"].append("write %d %s %s %s" % (f, t, sh, s2str([p])))
                B["write-split"].append("write %d %s %s %s" % (f, t, sh, s2str([p, "E"])))
    # (a NULL object - tree "n" - is refused by json_object_to_fd although it serializes to "null": covered by the fixed
    #  `write 0 n` cases; the file / pipe families below expect a successful write)
    some = [(f, t, sh) for (f, t), sh in zip(pairs, sers) if sh not in ("NULL", "-") and t != "n"]
    for (f, t, sh) in rng.sample(some, min(len(some), 12 if quick else 80)):
        L = len(sh) // 2
        for path, opn in ((b"out.json", "ok"), (b"no-such-dir/out.json", "ENOENT"), (b".", "EISDIR"),
                          (b"plainfile/x.json", "ENOTDIR"), (b"sub" * 100 + b"/x", "ENOENT")):
            B["tofile"].append("tofile %d %s %s %s %s -" % (f, t, sh, hexs(path), opn))
        b = rng.choice(base_schedules(rng, L, tier, False))
        B["tofile"].append("tofile %d %s %s %s ok %s" % (f, t, sh, hexs(b"out.json"), s2str(b)))
        for s in error_schedules(rng, b, L, "quick", False)[:4]:
            B["tofile"].append("tofile %d %s %s %s ok %s" % (f, t, sh, hexs(b"out2.json"), s2str(s)))

    # ---- reads
    docs = read_docs(rng, tier, rng.sample(ser_texts, min(len(ser_texts), 300 if quick else 700)))
    for d in docs:
        L = len(d)
        h = hexs(d)
        bases = base_schedules(rng, L, tier, True)
        for s in bases:
            B["read"].append("read %s %s %s" % (rng.choice(["d", "-1", "32", "7"]), h, s2str(s)))
        for b in rng.sample(bases, min(len(bases), 2 if quick else 4)):
            if calls_of(b, L, 4096) > (60 if quick else 600):
                continue
            for s in error_schedules(rng, b, L, tier, True):
                B["read-err"].append("read d %s %s" % (h, s2str(s)))
        for s in eof_schedules(rng, L, tier):
            B["read-eof"].append("read -1 %s %s" % (h, s2str(s)))
        if L <= (24 if quick else 120):
            for p in range(1, L):
                B["read-split"].append("read d %s %s" % (h, s2str([p])))
    # files: unopenable, real reads with imposed sizes
    for d in rng.sample(docs, min(len(docs), 10 if quick else 60)):
        h = hexs(d)
        L = len(d)
        B["fromfile"] += ["fromfile %s ENOENT %s -" % (hexs(b"missing.json"), h),
                          "fromfile %s ENOENT %s -" % (hexs(b"no-such-dir/in.json"), h),
                          "fromfile %s ENOTDIR %s -" % (hexs(b"plainfile/in.json"), h),
                          "fromfile %s ENOENT %s -" % (hexs(b"d" * 300), h)]
        for s in rng.sample(base_schedules(rng, L, tier, True), 3):
            B["fromfile"].append("fromfile %s ok %s %s" % (hexs(b"in.json"), h, s2str(s)))
        b = rng.choice(base_schedules(rng, L, tier, True))
        for s in error_schedules(rng, b, L, "quick", True)[:3]:
            B["fromfile"].append("fromfile %s ok %s %s" % (hexs(b"in.json"), h, s2str(s)))
    # real pipes: the kernel picks the schedule
    npipes = 6 if quick else 60
    okdocs = [d for d in docs if len(d) > 0]
    for d in rng.sample(okdocs, min(len(okdocs), npipes)):
        ch = [rng.choice([1, 2, 7, 100, 4096, 5000]) for _ in range(rng.randrange(1, 12))]
        B["pipe"].append("rpipe %s %s %s" % (rng.choice(["-1", "32", "4"]), hexs(d), s2str(ch)))
    for (f, t, sh) in rng.sample(some, min(len(some), npipes)):
        B["pipe"].append("wpipe %d %s %s" % (f, t, sh))
    bigs = [(f, t, sh) for (f, t, sh) in some if len(sh) // 2 > 4096]
    for (f, t, sh) in bigs[:3 if quick else 12]:
        B["pipe"].append("wpipe %d %s %s" % (f, t, sh))
    return B
