"""C05 ownership / reference counting: generator for the correspondence run
(model: lean/JsonC/Model/Heap.lean, spec: lean/JsonC/Spec/Ownership.lean, harness: harness/heap.c).

The generator must only produce histories that follow the documented ownership rules (anything else is
undefined behaviour in C by contract).  `Mirror` below tracks just enough for that - the container graph
and the number of references the caller holds - and decides liveness by reachability from caller-held
references.  It is NOT an oracle: every expected value comes from the Lean model / spec.  If the mirror
ever lets a forbidden call through, the Lean model answers `MISUSE ...` and the run reports it."""
import itertools

PROP = "C05"
HARNESS = "heap"
COMPONENT = "heap"
TIE = ["TranslatedHeap"]     # Lemmas/TranslatedHeap.lean: json_object_get / json_object_put on the definitions translated by tools/extract/c2lean.py
VARIANT = "asan"
WRAPS = ("malloc", "calloc", "realloc", "free", "strdup")
SLICE = 1500
NONTRIVIAL_MIN_TAGS = 4
SIZE_MAX = (1 << 64) - 1
RULE = ("ownership-respecting histories over a pool of at most ~12 live nodes: constructors, json_object_get (also on borrowed "
        "members), json_object_put, object add/replace/re-add-the-same-node/delete (opts 0 and KEY_IS_NEW), array add / put_idx "
        "(over null, over an occupied slot, over the same node, append, gap) / insert_idx / del_idx (0, 1, ranges, whole, invalid, "
        "idx+count overflow), indices {0,len-1,len,len+1,len+3, 2^60, 2^61-2, 2^61-1, SIZE_MAX-1, SIZE_MAX}, set_userdata / "
        "set_serializer (replace, clear), deep_copy (success and a shallow-copy failure injected at the k-th node), the fixed "
        "scenarios of the property text, and every history ends by releasing (almost always) everything the caller still owns; "
        "after every call: return value, callbacks run (node, token, final?), node blocks freed, then _ref_count / userdata / "
        "children of every live node and the allocator block balance; non-trivial = the model run hit >= 4 distinct branch tags; "
        "distinct = distinct op text")
ASSUMPTIONS = ["allocation succeeds, except array requests of >= 2^48 slots (index guard / realloc of >= 2^51 bytes) which are refused; "
               "allocation failure proper is property C08",
               "user delete callbacks only observe (the harness callback logs and returns)",
               "a history follows the ownership rules iff the Lean model never answers MISUSE (History.WF); the Python mirror in this "
               "file only steers the generator",
               "json_object_deep_copy is driven with a shallow-copy function that installs the per-node callback and returns 2, as "
               "the API documents for nodes carrying user data"]
TRUSTED = ["glibc malloc/free as wrapped by -Wl,--wrap in harness/heap.c (block accounting, free() of a node's block = destruction)",
           "harness/heap.c id <-> pointer table"]

DEFECTS = []

MANIFEST = dict(
   text="Lean 4 theorems over an executable model of json-c's reference-counting object API (json_object.c with the release points of "
        "linkhash.c / arraylist.c): heap = id -> {_ref_count, payload slots, user-delete token}; json_object_put is an explicit "
        "work list (depth-first, callback before teardown); constructors, get, put, object add/replace/re-add/delete, array "
        "add/put_idx/insert_idx/del_idx, set_userdata/set_serializer, deep_copy (with an injected shallow-copy failure) and "
        "json_pointer_set; a ghost map counts the references the caller holds and the model reports every call outside the "
        "documented rules as misuse (decidable History.WF). Proved for every finite well-formed history and every call: no C-level "
        "fault (the assert in put never fires, no put on freed memory, fuel never runs out), rc_accurate (count = caller references + "
        "container slots, also mid-teardown with the pending work list), destroy_once / destroyed_never_reappears, "
        "destroyed_iff_last (+ put returns 1 exactly when the released reference was the last, callbacks = those of the destroyed "
        "nodes), survivor_usable, failed_keeps_ownership, all_released_empty (general DAG case, acyclicity is an invariant), "
        "live_iff_owner_chain (live = reachable from a caller-held reference). The model is tied to the code by facts regenerated from "
        "json_object.c / arraylist.c on every run and by a differential run of model, ownership spec (tracing collector) and the "
        "ASan/UBSan-built library with wrapped malloc/free: per call the return value, the callbacks run, the node blocks freed, every "
        "live node's _ref_count / userdata / children and the allocator block balance.",
   note="Trusted: Lean kernel + propext/Classical.choice/Quot.sound; tools/extract; the differential harness (id<->pointer table, "
        "--wrap accounting); allocation success (failure is C08). json_patch_apply is not modelled here (C13). The model is "
        "hand-written: theorems are about the model, the correspondence run is testing. Tie by translation (new): json_object_get and json_object_put (non-threaded build) are translated from clang's typed AST of the current source into Lean on every run (tools/extract/c2lean.py -> Generated/Translated.lean; glibc's assert expands to a branch that ends in __assert_fail) and Lemmas/TranslatedHeap.lean proves on those definitions, for every count, type and callback: get returns the node and raises the count by exactly one; put with other owners left returns 0, lowers the count by one, runs no callback and tears nothing down; releasing the last reference returns 1, runs the user's delete callback first (once, with the node and its userdata) when one is installed, then exactly the teardown function of the node's type (get_null, get_counts, put_null, put_keeps, put_last).",
   technique="Lean 4 proof (invariant with pending work list, induction over histories) + model/spec/implementation correspondence run + agreement theorems with Lean definitions translated from the current C source (clang AST) on every run",
   design="6/C05")


def hx(s):
    return s.encode().hex()


KEYS = [hx("a"), hx("b"), hx("k1"), hx("key-longer-than-eight")]


class Mirror:
    """container graph + caller-held reference counts; only used to avoid misuse"""

    def __init__(self):
        self.body = {}      # id -> ['o', [[key, v], ...]] | ['a', [v, ...]] | ['s']
        self.ext = {}
        self.next = 0

    # ---- queries
    def kids(self, i):
        b = self.body[i]
        if b[0] == 'o':
            return [v for _, v in b[1] if v is not None]
        if b[0] == 'a':
            return [v for v in b[1] if v is not None]
        return []

    def reach(self, a, b):
        seen, todo = set(), [a]
        while todo:
            x = todo.pop()
            if x == b:
                return True
            if x in seen:
                continue
            seen.add(x)
            todo += self.kids(x)
        return False

    def sweep(self):
        seen, todo = set(), [i for i, e in self.ext.items() if e > 0]
        while todo:
            x = todo.pop()
            if x in seen:
                continue
            seen.add(x)
            todo += self.kids(x)
        for i in list(self.body):
            if i not in seen:
                del self.body[i]
                self.ext.pop(i, None)

    def live(self):
        return sorted(self.body)

    def owned(self):
        return [i for i in sorted(self.body) if self.ext.get(i, 0) > 0]

    def usize(self, i, cap=64):
        """number of nodes of the tree unfolding below i (what deep copy creates)"""
        n, todo = 0, [i]
        while todo and n <= cap:
            x = todo.pop()
            n += 1
            todo += self.kids(x)
        return n

    def can_give(self, p, v):
        return v is None or (self.ext.get(v, 0) > 0 and not self.reach(v, p))

    # ---- effects (graph and ext only)
    def new(self, kind):
        i = self.next
        self.next += 1
        self.body[i] = ['o', []] if kind == 'o' else ['a', []] if kind == 'a' else ['s']
        self.ext[i] = 1
        return i

    def give(self, v):
        if v is not None:
            self.ext[v] -= 1

    def apply(self, line):
        w = line.split()
        op = w[0]
        val = lambda s: None if s == "-" else int(s)
        if op.startswith("new"):
            self.new(op[3])
        elif op == "get":
            self.ext[int(w[1])] = self.ext.get(int(w[1]), 0) + 1
        elif op == "put":
            self.ext[int(w[1])] -= 1
        elif op == "oadd":
            p, k, v = int(w[1]), w[2], val(w[3])
            if v != p:
                kvs = self.body[p][1]
                for e in kvs:
                    if e[0] == k:
                        e[1] = v
                        break
                else:
                    kvs.append([k, v])
                self.give(v)
        elif op == "odel":
            p, k = int(w[1]), w[2]
            self.body[p][1] = [e for e in self.body[p][1] if e[0] != k]
        elif op == "aadd":
            self.body[int(w[1])][1].append(val(w[2]))
            self.give(val(w[2]))
        elif op in ("aput", "ains"):
            p, idx, v = int(w[1]), int(w[2]), val(w[3])
            xs = self.body[p][1]
            if idx < (1 << 40):
                if idx < len(xs):
                    if op == "aput":
                        xs[idx] = v
                    else:
                        xs.insert(idx, v)
                else:
                    xs += [None] * (idx - len(xs)) + [v]
                self.give(v)
        elif op == "adel":
            p, idx, cnt = int(w[1]), int(w[2]), int(w[3])
            xs = self.body[p][1]
            if idx + cnt <= SIZE_MAX and idx < len(xs) and idx + cnt <= len(xs):
                del xs[idx:idx + cnt]
        elif op in ("setud", "setser"):
            pass
        elif op == "ptrset":
            root, toks, v = int(w[1]), ptr_tokens(w[2]), val(w[3])
            if not toks:
                self.ext[root] -= 1
            else:
                p = self.resolve(root, toks[:-1])
                last = toks[-1]
                if p is not None and self.body[p][0] == 'a':
                    if last == "-":
                        self.apply("aadd %d %s" % (p, vs(v)))
                    elif valid_index(last) is not None:
                        self.apply("aput %d %d %s" % (p, valid_index(last), vs(v)))
                elif p is not None and self.body[p][0] == 'o':
                    self.apply("oadd %d %s %s 0" % (p, hx(last), vs(v)))
        elif op == "copy":
            src, fail = int(w[1]), val(w[2])
            n = self.usize(src, cap=10000)
            if fail is not None and 1 <= fail <= n:
                self.next += fail - 1
            else:
                root = self.clone(src)
                self.ext[root] = 1
        self.sweep()

    def resolve(self, cur, toks):
        """node reached from cur by the reference tokens, or None (missing / null / scalar / bad index)"""
        for t in toks:
            if cur is None or cur not in self.body:
                return None
            b = self.body[cur]
            if b[0] == 'a':
                i = valid_index(t)
                if i is None or i >= len(b[1]):
                    return None
                cur = b[1][i]
            elif b[0] == 'o':
                d = dict((k, v) for k, v in b[1])
                if hx(t) not in d:
                    return None
                cur = d[hx(t)]
            else:
                return None
        return cur

    def clone(self, src):
        d = self.next
        self.next += 1
        b = self.body[src]
        if b[0] == 'o':
            self.body[d] = ['o', []]
            for k, v in list(b[1]):
                self.body[d][1].append([k, None if v is None else self.clone(v)])
        elif b[0] == 'a':
            self.body[d] = ['a', []]
            for v in list(b[1]):
                self.body[d][1].append(None if v is None else self.clone(v))
        else:
            self.body[d] = ['s']
        self.ext.setdefault(d, 0)
        return d


def valid_index(t):
    if not t or not t.isdigit() or (len(t) > 1 and t[0] == "0"):
        return None
    return min(int(t), SIZE_MAX)


def ptr_tokens(hexpath):
    if hexpath == "-":
        return []
    return bytes.fromhex(hexpath).decode().split("/")[1:]


def vs(v):
    return "-" if v is None else str(v)


HUGE = [SIZE_MAX, SIZE_MAX - 1, (1 << 61), (1 << 61) - 1, (1 << 61) - 2, 1 << 60]


def pick_val(rng, m, p, prefer=None):
    """a value the caller may hand to container p (or None = JSON null)"""
    if prefer is not None and m.can_give(p, prefer) and rng.chance(0.45):
        return prefer, True
    if rng.chance(0.12):
        return None, True
    c = [v for v in m.owned() if v != p and m.can_give(p, v)]
    if not c:
        return None, False
    return rng.choice(c), True


def choose(rng, m):
    live = m.live()
    objs = [i for i in live if m.body[i][0] == 'o']
    arrs = [i for i in live if m.body[i][0] == 'a']
    owned = m.owned()
    full = len(live) >= 12
    for _ in range(20):
        k = rng.random()
        if k < 0.16:
            if full:
                continue
            return "new" + rng.choice("ooaaasidb")
        if k < 0.26 and live:
            # json_object_get, biased to borrowed members (ext == 0)
            b = [i for i in live if m.ext.get(i, 0) == 0]
            return "get %d" % (rng.choice(b) if b and rng.chance(0.6) else rng.choice(live))
        if k < 0.40 and owned:
            return "put %d" % rng.choice(owned)
        if k < 0.58 and objs:
            p = rng.choice(objs)
            kvs = m.body[p][1]
            present = [e[0] for e in kvs]
            if present and rng.chance(0.55):
                key = rng.choice(present)
                cur = dict((e[0], e[1]) for e in kvs)[key]
                v, ok = pick_val(rng, m, p, prefer=cur)
            else:
                key = rng.choice(KEYS)
                v, ok = pick_val(rng, m, p)
            if rng.chance(0.03):
                return "oadd %d %s %d 0" % (p, key, p)            # jso == val: refused with -1
            if not ok:
                continue
            opts = 2 if (key not in present and rng.chance(0.2)) else 0
            return "oadd %d %s %s %d" % (p, key, vs(v), opts)
        if k < 0.65 and objs:
            p = rng.choice(objs)
            present = [e[0] for e in m.body[p][1]]
            key = rng.choice(present) if present and rng.chance(0.8) else rng.choice(KEYS)
            return "odel %d %s" % (p, key)
        if k < 0.88 and arrs:
            p = rng.choice(arrs)
            xs = m.body[p][1]
            n = len(xs)
            r = rng.random()
            if r < 0.25:
                v, ok = pick_val(rng, m, p)
                if not ok:
                    continue
                return "aadd %d %s" % (p, vs(v))
            if r < 0.75:
                op = "aput" if r < 0.55 else "ains"
                idx = rng.choice([0, max(0, n - 1), n, n + 1, n + 3, rng.randrange(0, n + 4)])
                if rng.chance(0.06):
                    idx = rng.choice(HUGE)
                cur = xs[idx] if idx < n else None
                v, ok = pick_val(rng, m, p, prefer=cur if op == "aput" else None)
                if not ok:
                    continue
                return "%s %d %d %s" % (op, p, idx, vs(v))
            cands = [(0, 1), (0, n), (max(0, n - 1), 1), (n, 0), (0, n + 1), (n, 1), (1, SIZE_MAX), (0, 0),
                     (SIZE_MAX, 1), (SIZE_MAX, SIZE_MAX)]
            if n >= 2:
                i = rng.randrange(0, n)
                cands += [(i, rng.randrange(0, n - i + 1))] * 4 + [(1, n - 1), (0, n - 1)]
            idx, cnt = rng.choice(cands)
            return "adel %d %d %d" % (p, idx, cnt)
        if k < 0.93 and live:
            i = rng.choice(live)
            tok = "-" if rng.chance(0.12) else str(rng.randrange(100, 1000))
            return "%s %d %s" % (rng.choice(["setud", "setud", "setser"]), i, tok)
        if k < 0.965 and live:
            l = gen_ptrset(rng, m)
            if l is None:
                continue
            return l
        if live and rng.chance(0.25):
            # the default shallow copy refuses user data: a silent failure (round-7 seed C05-13)
            return "copyd %d" % rng.choice(live)
        if live:
            src = rng.choice(live)
            n = m.usize(src)
            if n > 8 or (len(live) + n > 16):
                continue
            fail = "-"
            if rng.chance(0.3):
                fail = str(rng.randrange(1, n + 2))
            return "copy %d %s" % (src, fail)
    return "newo" if not full else ("put %d" % owned[0] if owned else "newo")


PLAIN_KEYS = ["a", "b", "k1", "key-longer-than-eight"]


def gen_ptrset(rng, m):
    """json_pointer_set(&root, path, v): walk down the mirror graph, then pick a last token"""
    live = m.live()
    if rng.chance(0.06) and m.owned():
        root = rng.choice(m.owned())
        c = [v for v in m.owned() if v != root or m.ext[v] > 1] + [None]
        return "ptrset %d - %s" % (root, vs(rng.choice(c)))           # "" replaces the root variable
    conts = [i for i in live if m.body[i][0] in "oa"]
    if not conts:
        return None
    root = cur = rng.choice(conts)
    toks = []
    for _ in range(rng.randrange(0, 3)):
        b = m.body[cur]
        nxt = [(("%d" % i) if b[0] == 'a' else bytes.fromhex(e[0]).decode(), (e if b[0] == 'a' else e[1]))
               for i, e in enumerate(b[1])]
        nxt = [(t, c) for t, c in nxt if c is not None and m.body[c][0] in "oa"]
        if not nxt:
            break
        t, cur = rng.choice(nxt)
        toks.append(t)
    r = rng.random()
    if r < 0.12:
        # a path that does not resolve: missing key / index past the end / through a scalar or null
        toks.append(rng.choice(["nokey", "99", "0", "x"]))
        toks.append(rng.choice(["a", "0", "-"]))
        p = None
    else:
        p = cur
    if p is not None:
        b = m.body[p]
        if b[0] == 'a':
            n = len(b[1])
            last = rng.choice(["-", "0", str(max(0, n - 1)), str(n), str(n + 2), "01", "x", "", "1e1",
                               str(SIZE_MAX), str(1 << 61)])
        else:
            present = [bytes.fromhex(e[0]).decode() for e in b[1]]
            last = rng.choice(present) if present and rng.chance(0.5) else rng.choice(PLAIN_KEYS)
        toks.append(last)
    path = "/" + "/".join(toks)
    target = m.resolve(root, toks[:-1])
    if target is not None and target in m.body and m.body[target][0] in "oa":
        cur_v = None
        if m.body[target][0] == 'o':
            cur_v = dict((k, v) for k, v in m.body[target][1]).get(hx(toks[-1]))
        v, ok = pick_val(rng, m, target, prefer=cur_v)
        if not ok:
            return None
        if m.body[target][0] == 'o' and m.ext.get(target, 0) > 0 and rng.chance(0.05):
            v = target                                                   # jso == val: refused
    else:
        c = m.owned()
        v = rng.choice(c) if c and rng.chance(0.8) else None
    return "ptrset %d %s %s" % (root, hx(path), vs(v))


def finish(m, lines, rng=None):
    """release everything the caller still owns (now and then keep one handle), then `end`"""
    keep = None
    if rng is not None and rng.chance(0.1) and m.owned():
        keep = rng.choice(m.owned())
    while True:
        o = [i for i in m.owned() if i != keep]
        if not o:
            break
        l = "put %d" % o[0]
        lines.append(l)
        m.apply(l)
    lines.append("end")
    return lines


def gen_history(rng, nops):
    m = Mirror()
    lines = []
    for _ in range(nops):
        l = choose(rng, m)
        lines.append(l)
        m.apply(l)
    return finish(m, lines, rng)


def ckey_history(rng):
    """an object some of whose members were added with JSON_C_OBJECT_ADD_CONSTANT_KEY (the table points at the caller's
    key, owns no copy), grown through several table sizes (a resize re-inserts every entry and has to carry each entry's
    own key ownership over), with deletes and replacements in between; at the end nothing may remain allocated"""
    m = Mirror()
    lines = ["nomem", "newo"]
    m.apply("newo")
    n = rng.choice([14, 25, 45, 70, 130])
    first_const = rng.chance(0.7)
    keys = []
    for i in range(n):
        k = hx("ck%d" % i)
        kind = rng.choice(["news", "news", "newa", "newo"])
        lines.append(kind); m.apply(kind)
        v = m.next - 1
        const = (i == 0 and first_const) or rng.chance(0.15)
        opts = (4 if const else 0) | (2 if rng.chance(0.3) else 0)
        l = "oadd 0 %s %d %d" % (k, v, opts)
        lines.append(l); m.apply(l)
        keys.append(k)
        if rng.chance(0.08) and len(keys) > 2:
            d = keys.pop(rng.randrange(len(keys)))
            l = "odel 0 %s" % d
            lines.append(l); m.apply(l)
        if rng.chance(0.08):
            # replace an existing member's value (the entry keeps its key and its ownership)
            lines.append("news"); m.apply("news")
            l = "oadd 0 %s %d %d" % (rng.choice(keys), m.next - 1, rng.choice([0, 4]))
            lines.append(l); m.apply(l)
    return finish(m, lines, None)


def serp_history(rng):
    """a double node with a user-installed serializer (one of the library's own public serializer functions) and a
    delete callback: changing its value any number of times runs no callback and drops nothing; the callback runs
    exactly once, when the node goes"""
    m = Mirror()
    lines = []
    def do(l):
        lines.append(l); m.apply(l)
    do("newd")
    extra = rng.randrange(0, 3)
    for _ in range(extra):
        do("get 0")
    how = rng.choice(["setserp", "setserd", "setserd", "setser", "setud"])
    do("%s 0 %d" % (how, rng.randrange(1, 9)))
    for _ in range(rng.randrange(1, 4)):
        do("setd 0")
        if rng.chance(0.3):
            do("get 0"); do("put 0")
        if how != "setserp" and rng.chance(0.4):
            # (json_object_userdata_to_json_string is the one serializer whose userdata the library does copy - as a string)
            # the default shallow copy refuses a node with user data it does not know, silently (round-8 seeds C05-14 / C09-13:
            # a format string owned by the node must not end up owned by two nodes)
            do("copyd 0")
    if rng.chance(0.5):
        do("newa"); do("aadd 1 0")
        do("setd 0")
    return finish(m, lines, None)


A, B, K = hx("a"), hx("b"), hx("k1")
SCENARIOS = [
    # replace the same key twice
    ["newo", "news", "news", "news", "oadd 0 %s 1 0" % A, "oadd 0 %s 2 0" % A, "oadd 0 %s 3 0" % A, "put 0"],
    # re-add the same node under the same key after an extra get (twice), then drop the container
    ["newo", "news", "oadd 0 %s 1 0" % A, "get 1", "oadd 0 %s 1 0" % A, "get 1", "oadd 0 %s 1 0" % A, "put 0"],
    ["newo", "newa", "get 1", "oadd 0 %s 1 0" % K, "oadd 0 %s 1 0" % K, "put 0"],
    # same node under two keys, replace one of them by itself
    ["newo", "news", "get 1", "get 1", "oadd 0 %s 1 0" % A, "oadd 0 %s 1 0" % B, "oadd 0 %s 1 0" % A, "odel 0 %s" % B, "put 0"],
    # delete with an extra reference held, then use the survivor after the parent is gone
    ["newo", "newa", "news", "aadd 1 2", "oadd 0 %s 1 0" % A, "get 1", "odel 0 %s" % A, "put 0", "newi", "aadd 1 3",
     "setud 1 500", "aput 1 0 -", "put 1"],
    ["newo", "newo", "news", "oadd 1 %s 2 0" % B, "oadd 0 %s 1 0" % A, "get 2", "put 0", "setud 2 7", "get 2", "put 2", "put 2"],
    # put_idx over an occupied slot, over the same node, over null, with a gap
    ["newa", "news", "news", "aadd 0 1", "aput 0 0 2"],
    ["newa", "news", "aadd 0 1", "get 1", "aput 0 0 1", "get 1", "aput 0 0 1", "put 0"],
    ["newa", "news", "aput 0 3 1", "news", "aput 0 1 2", "aput 0 1 -", "put 0"],
    # del_idx ranges, insert_idx
    ["newa", "news", "news", "news", "news", "aadd 0 1", "aadd 0 2", "aadd 0 3", "aadd 0 4", "get 3", "adel 0 1 2", "adel 0 0 2",
     "adel 0 0 1", "put 3"],
    ["newa", "news", "news", "news", "aadd 0 1", "aadd 0 2", "ains 0 0 3", "ains 0 1 -", "ains 0 9 -", "adel 0 0 10", "put 0"],
    # front del_idx, then a gapped put_idx, while the caller still owns the element that moved down
    ["newa", "news", "news", "get 2", "aadd 0 1", "aadd 0 2", "adel 0 0 1", "aput 0 3 -", "put 0", "setud 2 9", "put 2"],
    ["newa", "news", "news", "news", "get 3", "aadd 0 1", "aadd 0 2", "aadd 0 3", "adel 0 0 2", "ains 0 4 -", "adel 0 1 3", "put 0", "put 3"],
    # failing ops leave ownership with the caller
    ["newa", "news", "adel 0 0 1", "adel 0 1 %d" % SIZE_MAX, "aput 0 %d 1" % SIZE_MAX, "aput 0 %d 1" % ((1 << 61) - 1),
     "ains 0 %d 1" % (SIZE_MAX - 1), "aadd 0 1", "adel 0 1 0", "adel 0 0 2", "put 0"],
    ["newo", "oadd 0 %s 0 0" % A, "oadd 0 %s - 0" % A, "oadd 0 %s 0 0" % A, "odel 0 %s" % B, "put 0"],
    # deep copy, then destroy either side first
    ["newo", "newa", "news", "aadd 1 2", "aadd 1 -", "oadd 0 %s 1 0" % A, "oadd 0 %s - 0" % B, "copy 0 -", "put 0", "setud 4 1", "put 3"],
    ["newo", "newa", "news", "aadd 1 2", "oadd 0 %s 1 0" % A, "copy 0 -", "put 3", "copy 1 -", "put 0"],
    # a node shared by two containers is copied twice
    ["newa", "news", "get 1", "aadd 0 1", "aadd 0 1", "copy 0 -", "put 0", "put 2"],
    # deep copy failing at the k-th node: everything built so far is released, the source is untouched
    ["newo", "newa", "news", "news", "aadd 1 2", "aadd 1 3", "oadd 0 %s 1 0" % A, "copy 0 1", "copy 0 2", "copy 0 3", "copy 0 4",
     "copy 0 5", "put 0"],
    # set_userdata / set_serializer replaced, cleared, then destroyed
    ["news", "setud 0 11", "setser 0 12", "setud 0 -", "setud 0 13", "put 0"],
    ["newo", "setser 0 -", "put 0"],
    # KEY_IS_NEW
    ["newo", "news", "news", "oadd 0 %s 1 2" % A, "oadd 0 %s 2 2" % B, "oadd 0 %s - 0" % A, "put 0"],
    # json_pointer_set: value consumed on success (old member released), left with the caller on failure
    ["newo", "newa", "news", "news", "oadd 0 %s 1 0" % A, "ptrset 0 %s 2" % hx("/a/-"), "ptrset 0 %s 3" % hx("/a/0"),
     "news", "ptrset 0 %s 4" % hx("/a/5/x"), "ptrset 0 %s 4" % hx("/nokey/x"), "ptrset 0 %s 4" % hx("/a/01"),
     "ptrset 0 %s 4" % hx("/a/0/deeper"), "get 4", "ptrset 0 %s 4" % hx("/a"), "put 0", "setud 4 5"],
    ["newo", "news", "ptrset 0 - 1", "put 1"],
    ["newa", "newo", "get 1", "aadd 0 1", "ptrset 0 %s 1" % hx("/0/self"), "ptrset 0 %s -" % hx("/3"), "put 1", "put 0"],
    # a DAG: one node in three slots of two containers, released in different orders
    ["newo", "newa", "news", "get 2", "get 2", "aadd 1 2", "aadd 1 2", "oadd 0 %s 2 0" % A, "oadd 0 %s 1 0" % B, "get 1", "put 0",
     "adel 1 0 1", "put 1"],
]


def scenario_cases():
    for sc in SCENARIOS:
        m = Mirror()
        lines = []
        for l in sc:
            lines.append(l)
            m.apply(l)
        yield {"lines": finish(m, lines)}


# small-scope exhaustive part: handles 0 = object, 1 = array, 2 = string
ALPHABET = ["get 2", "put 2", "put 0", "put 1", "get 1", "oadd 0 %s 2 0" % A, "oadd 0 %s 1 0" % A, "oadd 0 %s - 0" % A,
            "odel 0 %s" % A, "aadd 1 2", "aput 1 0 2", "ains 1 0 2", "adel 1 0 1", "copy 0 -"]


def valid(m, line):
    w = line.split()
    op = w[0]
    live = m.body
    val = lambda s: None if s == "-" else int(s)
    if op == "get":
        return int(w[1]) in live
    if op == "put":
        return m.ext.get(int(w[1]), 0) > 0
    if op in ("oadd", "aadd", "aput", "ains"):
        p = int(w[1])
        v = val(w[3] if op != "aadd" else w[2])
        return p in live and m.can_give(p, v)
    if op in ("odel", "adel", "copy"):
        return int(w[1]) in live
    return True


def enumerate_small(depth):
    prefix = ["newo", "newa", "news"]

    def rec(m_lines, d):
        m = Mirror()
        for l in m_lines:
            m.apply(l)
        nxt = [a for a in ALPHABET if valid(m, a)] if d > 0 else []
        if len(m_lines) > len(prefix):
            yield {"lines": finish(m, list(m_lines)), "keep": len(prefix)}
        for a in nxt:
            yield from rec(m_lines + [a], d - 1)

    yield from rec(prefix, depth)


def gen(rng, tier):
    yield from scenario_cases()
    n = 3000 if tier == "quick" else 30000
    for i in range(n):
        yield {"lines": gen_history(rng, rng.choice([4, 10, 25, 50, 80]))}
    for i in range(12 if tier == "quick" else 120):
        yield {"lines": ckey_history(rng)}
    for i in range(20 if tier == "quick" else 200):
        yield {"lines": serp_history(rng)}
    yield from enumerate_small(4 if tier == "quick" else 5)


# ---- comparison: a divergence on internal observables does not hide a later divergence on the
# ---- property's observables of the same history (the first is then reported only if no such follows)
_pending = {}


def compare_line(case, i, il, m, s, tags):
    cid = case.get("id")
    if i == 0:
        _pending.pop(cid, None)
    last = (i == len(case["lines"]) - 1)
    if m.startswith("MISUSE"):
        return ("modelfault", "generator bug: the history breaks the ownership rules here (%s)" % m)
    if m.startswith("FAULT"):
        return ("spec", "the Lean model reaches a C-level fault here: " + m)
    isp = il.split(" ## ")[0]
    if s not in ("", "*") and isp != s:
        return ("spec", "implementation differs from the ownership specification")
    if isp != m.split(" ## ")[0]:
        return ("spec", "implementation differs from the Lean model on the property's observables")
    if il != m and cid not in _pending:
        _pending[cid] = (i, il, m)
    if last and cid in _pending:
        j, a, b = _pending.pop(cid)
        return ("model", "implementation differs from the Lean model on internal observables at line %d: impl `%s` model `%s`" % (j, a, b))
    return None
