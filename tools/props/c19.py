"""C19 printbuf: generator for the correspondence run (model: lean/JsonC/Model/Printbuf.lean)."""
import itertools
from common import hexs

PROP = "C19"
HARNESS = "pb"
COMPONENT = "pb"
WRAPS = ("realloc", "vasprintf")      # harness/pb.c: `sproom` makes them fail during one sprintbuf call
TIE = ["TranslatedPb", "TranslatedCtor"]      # Lemmas/TranslatedPb.lean: Model/Printbuf.lean = printbuf.c as translated by tools/extract/c2lean.py
VARIANT = "asan"
INT_MAX = 2147483647
RULE = ("histories of printbuf ops (append / claimed-size append / memappend_fast macro / memset / sprintbuf / reset) "
        "with lengths aimed at the current capacity and its doubling boundaries, offsets -1/inside/at/beyond the end, "
        "sprintbuf outputs around the 127/128-byte stack-buffer limit, and INT_MAX-adjacent size arguments on the refusal "
        "paths; non-trivial = the model run hit >= 2 distinct branch tags; distinct = distinct op text")
ASSUMPTIONS = ["malloc/realloc succeed (allocation failure is property C08)",
               "vsnprintf/vasprintf produce the formatted bytes (sprintbuf is driven with \"%s\")",
               "requests that the model predicts are served with > 1 MiB are not generated in the quick tier"]
TRUSTED = ["glibc vsnprintf/vasprintf, memcpy, memset, realloc"]


MANIFEST = dict(
   text="Lean 4 theorems over a checked-C model of printbuf.c: for every buffer state satisfying the representation invariant and every "
        "request (any size/offset/fill/format output), memappend, the memappend_fast macro, memset, sprintbuf and reset do not fault (no int "
        "overflow, no access outside the allocation), keep the invariant, refine the byte-array specification (ByteBuf), leave appended text "
        "NUL-terminated inside the allocation, and refuse with EFBIG leaving the buffer unchanged exactly in the INT_MAX band; lifted by induction "
        "to every finite history (run_refines). The model is tied to the code by constants regenerated from printbuf.c on every run and by a "
        "differential run of model, spec and the ASan/UBSan-built implementation on generated histories.",
   note="Trusted: Lean kernel + propext/Classical.choice/Quot.sound; tools/extract; the differential harness; glibc vsnprintf/realloc; allocation "
        "success (failure is C08). The model is hand-written: theorems are about the model, the correspondence run is testing. Tie by translation (new): printbuf_extend / printbuf_memappend / printbuf_memset are translated from clang's typed AST of the current source into Lean on every run (tools/extract/c2lean.py -> Generated/Translated.lean, integer-and-effects semantics: signed overflow = fault, calls and stores as an event trace) and Lemmas/TranslatedPb.lean proves, for all states and arguments, that Model/Printbuf.lean returns the same value, size, bpos, errno and performs the same realloc / memcpy / memset / NUL store (extend_agrees, extend_refused, memappend_agrees, memset_agrees); these theorems are rebuilt and axiom-audited with the property theorems. Trusted there: clang's AST, the translator, the access-path memory abstraction (distinct paths do not alias).",
   technique="Lean 4 proof (invariant + refinement, induction over histories) + model/implementation correspondence run + agreement theorems with Lean definitions translated from the current C source (clang AST) on every run",
   design="6/C19")


class Sim:
    """spec-level simulation used only to aim the generator (not an oracle)"""
    def __init__(self):
        self.bpos, self.size = 0, 32

    def need(self, n):
        if n > self.size:
            self.size = max(self.size * 2, n + 8)


def rand_bytes(rng, n, nonzero=False):
    lo = 1 if nonzero else 0
    if rng.chance(0.5):
        return bytes(rng.randrange(lo, 256) for _ in range(n))
    return bytes([rng.choice([65, 66, 0x7f, 0xff, 1])]) * n


def gen_history(rng, nops):
    s = Sim()
    lines = []
    for _ in range(nops):
        k = rng.random()
        room = s.size - s.bpos            # bytes incl. the NUL slot
        if k < 0.30:
            # append with a length aimed at the capacity boundary
            n = rng.choice([0, 1, 2, max(0, room - 2), max(0, room - 1), room, room + 1, room + 7, room + 8, room + 9,
                            rng.randrange(0, 70), rng.randrange(0, 300), 2 * s.size - s.bpos - 1, 2 * s.size - s.bpos])
            n = max(0, min(n, 6000 - s.bpos))
            op = "app" if rng.chance(0.7) else "fast"
            lines.append("%s %s" % (op, hexs(rand_bytes(rng, n))))
            if s.size <= s.bpos + n + 1:
                s.need(s.bpos + n + 1)
            s.bpos += n
        elif k < 0.55:
            off = rng.choice([-1, -1, 0, s.bpos // 2, max(0, s.bpos - 1), s.bpos, s.bpos + 1, s.bpos + rng.randrange(0, 40),
                              s.size - 1, s.size, s.size + 1, -2, -3, -INT_MAX - 1])
            eff = s.bpos if off == -1 else off
            ln = rng.choice([0, 1, 2, rng.randrange(0, 50), max(0, s.size - eff - 1), max(0, s.size - eff),
                             max(0, s.size - eff + 1), max(0, 2 * s.size - eff), -1, -INT_MAX])
            cap = 6000                      # keep served requests (and the hex dumps) small
            if off > cap:
                off = cap - rng.randrange(0, 50); eff = off
            if ln > 0 and eff >= 0 and eff + ln > cap:
                ln = max(0, cap - eff)
            ch = rng.choice([0, 32, 65, 255, 256 + 66, -1, 0x141])
            r = rng.random()
            if r < 0.06:
                # refused: by the first range check (> INT_MAX) or by the extend guard (> INT_MAX - 8)
                ln = INT_MAX - eff + rng.choice([0, 1, -1, -6, -7]) if eff >= 0 else INT_MAX
                if eff >= 0 and eff + ln <= INT_MAX - 8:
                    ln = INT_MAX - eff
            elif r < 0.08:
                ln = INT_MAX
            lines.append("set %d %d %d" % (off, ch, ln))
            if ln >= 0 and eff >= 0 and eff + ln <= INT_MAX - 8 and eff + ln < (1 << 20):
                s.need(eff + ln)
                s.bpos = max(s.bpos, eff + ln)
        elif k < 0.80:
            n = rng.choice([0, 1, 5, 100, 126, 127, 128, 129, 130, 255, 256, 300, rng.randrange(0, 140),
                            max(0, room - 1), room, room + 1])
            n = max(0, min(n, 6000 - s.bpos))
            lines.append("spr %s" % hexs(rand_bytes(rng, n, nonzero=True)))
            if s.size <= s.bpos + n + 1:
                s.need(s.bpos + n + 1)
            s.bpos += n
        elif k < 0.84:
            # sprintbuf while the allocator refuses everything (realloc, vasprintf), right after a small append that leaves
            # the text terminated: served from the space at hand or refused with the buffer untouched - NUL included
            # (round-6 seed C19-10: formatting straight into the free space before knowing that the output fits)
            a = rand_bytes(rng, rng.choice([0, 1, 3]))
            if s.bpos + len(a) + 1 < s.size:
                lines.append("app %s" % hexs(a))
                s.bpos += len(a)
                room = s.size - s.bpos
                n = rng.choice([0, 1, max(0, room - 2), max(0, room - 1), room, room + 1, 127, 128, 200, rng.randrange(0, 300)])
                n = max(0, min(n, 6000 - s.bpos))
                lines.append("sproom %s" % hexs(rand_bytes(rng, n, nonzero=True)))
                if n < room and n <= 127:
                    s.bpos += n
        elif k < 0.88:
            lines.append("reset")
            s.bpos = 0
        else:
            n = rng.choice([INT_MAX, -1, -2, -INT_MAX - 1, INT_MAX, INT_MAX])
            lines.append("claim %d" % n)
    return lines


ALPHABET = ["app -", "app 41", "app " + "42" * 30, "app " + "43" * 31, "app " + "44" * 32, "fast " + "45" * 31,
            "fast " + "46" * 33, "set -1 71 1", "set 40 72 2", "set 0 73 64", "set 31 74 1", "spr " + "4b" * 127,
            "spr " + "4c" * 128, "reset", "sproom " + "4d" * 20, "sproom " + "4e" * 130]
STARTS = [[], ["app " + "61" * 31], ["set 0 98 32"], ["app " + "63" * 55], ["spr " + "64" * 200, "reset"]]


def gen(rng, tier):
    n = 2000 if tier == "quick" else 30000
    for i in range(n):
        # every tenth history first looks at the fresh buffer: printbuf_new gives the empty string, NUL-terminated
        yield {"lines": (["peek"] if i % 10 == 0 else []) + gen_history(rng, rng.choice([3, 8, 20, 40]))}
    # capacities of a MiB and more: a growth rule may treat large buffers differently (round-8 seed C19-13: 1.5x growth above
    # 1 MiB without the clamp to the request); one fill to get there, then a fill / append that ends beyond 1.5x and beyond 2x
    for big in ((1 << 20,) if tier == "quick" else (1 << 20, (1 << 20) + 5, 1300000)):   # the harness prints contents up to 4 MiB
        for more in (big // 2 + big // 8, big + 100):
            yield {"lines": ["set 0 120 %d" % big, "set -1 121 %d" % more, "app " + hexs(b"tail"), "set -1 122 %d" % (more // 2)], "noshrink": True}
    depth = 2 if tier == "quick" else 4
    for st in STARTS:
        for d in range(1, depth + 1):
            for seq in itertools.product(ALPHABET, repeat=d):
                yield {"lines": st + list(seq), "keep": len(st)}
