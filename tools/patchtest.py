#!/usr/bin/env python3
"""patchtest.py <patch file> <check ids...>: run checks against /repo + patch on private copies (like seedtest.py,
but for any patch - used for the behaviour-preserving rewrites that must NOT raise an alarm). Prints one line per
check: <patch> <check> exit=<rc> <first VIOLATION / OBLIGATION lines>."""
import os, shutil, subprocess, sys, time
VERIF = os.path.dirname(os.path.dirname(os.path.abspath(__file__)))
REPO = "/repo"
TMP = os.environ.get("SEEDTEST_TMP", "/tmp/seedtest")


def sh(cmd, **kw):
    return subprocess.run(cmd, stdout=subprocess.PIPE, stderr=subprocess.STDOUT, text=True, **kw)


def main():
    patch = os.path.abspath(sys.argv[1])
    checks = sys.argv[2:]
    name = os.path.basename(os.path.dirname(patch)) or "patch"
    work = os.path.join(TMP, "pt_" + name + "." + str(os.getpid()))
    crepo, cverif = os.path.join(work, "repo"), os.path.join(work, "verif")
    os.makedirs(work, exist_ok=True)
    rc_all = 0
    try:
        sh(["rsync", "-a", "--exclude", "_build", REPO + "/", crepo + "/"])
        sh(["rsync", "-a", "--exclude", ".git", "--exclude", "build/replay", "--exclude", "build/scratch", "--exclude", "seeded",
            VERIF + "/", cverif + "/"])
        r = sh(["git", "-C", crepo, "apply", patch])
        if r.returncode != 0:
            print(patch, "does not apply:", r.stdout[-300:])
            return 2
        env = dict(os.environ, VERIF_REPO=crepo)
        tier = os.environ.get("PATCHTEST_TIER", "quick")
        for c in checks:
            t0 = time.time()
            rr = sh(["python3", os.path.join(cverif, "tools", "check.py"), c, "--tier", tier], cwd=cverif, env=env)
            lines = [l.replace(cverif, "/verif")[:300] for l in rr.stdout.split("\n")
                     if l.startswith("VIOLATION") or "OBLIGATION BROKEN" in l or "DIVERG" in l.upper()]
            print(patch, c, "exit=%d" % rr.returncode, "%.0fs" % (time.time() - t0), lines[:4], flush=True)
            if rr.returncode != 0:
                rc_all = 1
                keep = os.path.join("/tmp/patchtest_logs"); os.makedirs(keep, exist_ok=True)
                open(os.path.join(keep, "%s_%s_%s.log" % (os.path.basename(os.path.dirname(os.path.dirname(patch))), name, c)), "w").write(rr.stdout)
    finally:
        shutil.rmtree(work, ignore_errors=True)
    return rc_all


if __name__ == "__main__":
    sys.exit(main())
