#!/bin/bash
# confirm_seed.sh <Cxx> <n> : confirm a seeded defect in the scratch worktree /tmp/seed_<Cxx>
# (suite passes with the patch; demo passes without and fails with). Writes /verif/seeded/<Cxx>-<n>/.
set -u
P=$1; N=$2
WT=/tmp/seed_$P; OUT=/tmp/seed_out/$P; DST=/verif/seeded/$P-$N
[ -d $WT ] || git -C /repo worktree add --detach $WT HEAD >/dev/null 2>&1
cd $WT && git checkout -q -- . 
EXTRA=$(grep -ho -- '-pthread\|-D[A-Z_]*THREADING[A-Z_=0-9]*' $OUT/notes$N.md 2>/dev/null | sort -u | tr '\n' ' ')
build() { cmake -G Ninja -S $WT -B $WT/_build -DCMAKE_BUILD_TYPE=Debug >/dev/null 2>&1 && cmake --build $WT/_build -j8 >/dev/null 2>&1; }
demo() { gcc -I $WT -I $WT/_build $OUT/demo$N.c $WT/_build/libjson-c.a -lm -lpthread -o /tmp/seed_out/$P/demo$N.bin 2>/tmp/seed_out/$P/demo$N.cc.log && (cd /tmp/seed_out/$P && timeout 120 ./demo$N.bin >/tmp/seed_out/$P/demo$N.out 2>&1; echo $?); }
build || { echo "$P-$N pristine build failed"; exit 1; }
R0=$(demo)
git apply $OUT/patch$N.diff || { echo "$P-$N patch does not apply"; exit 1; }
build || { echo "$P-$N patched build failed"; git checkout -q -- .; exit 1; }
PASSED=$(ctest --test-dir $WT/_build -j8 --timeout 900 2>&1 | grep -o "[0-9]*% tests passed, [0-9]* tests failed out of [0-9]*")
R1=$(demo)
git checkout -q -- .
echo "$P-$N pristine_demo_rc=$R0 patched_demo_rc=$R1 suite='$PASSED'"
if [ "$R0" = "0" ] && [ "$R1" != "0" ] && echo "$PASSED" | grep -q "100% tests passed"; then
  mkdir -p $DST && cp $OUT/patch$N.diff $DST/patch.diff && cp $OUT/demo$N.c $DST/demo.c && cp $OUT/notes$N.md $DST/notes.md
  echo "$P-$N CONFIRMED"
else
  echo "$P-$N NOT CONFIRMED"
fi
