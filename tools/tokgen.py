"""Generators shared by the tokener properties (C01 C03 C04 C15 C16).

Documents are generated from the RFC 8259 grammar as Python tuples and rendered to text with
explicit layout, so every escape form, number shape, whitespace layout and nesting shape occurs;
`mutate` derives malformed / extension-bearing byte strings from them."""

WS = [b" ", b"\t", b"\n", b"\r"]
FLAGSETS = [0, 1, 2, 3, 16, 17, 19]


def ws(rng, p=0.3):
    out = b""
    while rng.random() < p:
        out += rng.choice(WS)
    return out


def gen_string_body(rng, maxlen=8, key=False):
    """returns escaped text (bytes, without quotes)"""
    out = b""
    for _ in range(rng.randrange(0, maxlen)):
        k = rng.random()
        if k < 0.45:
            out += bytes([rng.choice(b"abcxyzABC019 _-+.:,[]{}/'*eEtrufnl")])
        elif k < 0.55:
            out += rng.choice([b'\\"', b"\\\\", b"\\/", b"\\b", b"\\f", b"\\n", b"\\r", b"\\t"])
        elif k < 0.80:
            u = rng.choice([rng.randrange(0x20, 0x80), rng.randrange(0x80, 0x800), rng.randrange(0x800, 0xD800),
                            rng.randrange(0xD800, 0xDC00), rng.randrange(0xDC00, 0xE000), rng.randrange(0xE000, 0x10000),
                            0x0000 if not key else 0x41, 0x001f, 0x007f, 0x0080, 0x07ff, 0x0800, 0xffff, 0xd800, 0xdbff,
                            0xdc00, 0xdfff, 0xd836, 0xd837])
            h = b"\\u%04x" % u
            if rng.chance(0.3):
                h = h.upper().replace(b"\\U", b"\\u")
            out += h
            if 0xD800 <= u < 0xDC00 and rng.chance(0.7):
                lo = rng.choice([rng.randrange(0xDC00, 0xE000), 0xdc00, 0xdfff])
                out += b"\\u%04x" % lo
        elif k < 0.92:
            # raw UTF-8 multi-byte scalar
            cp = rng.choice([rng.randrange(0x80, 0x800), rng.randrange(0x800, 0xD800), rng.randrange(0xE000, 0x10000),
                             rng.randrange(0x10000, 0x110000)])
            out += chr(cp).encode("utf-8")
        else:
            out += bytes([rng.choice(b"\x7f!#$%&()")])
    return out


def midpoint_number(rng):
    """the exact decimal expansion of the midpoint between two adjacent doubles (a tie: round to even), or that expansion with a
    digit far beyond the 17th, the 64th, the 100th changed - the correctly rounded result then depends on every digit of the
    text (round-7 seed C01-13: a conversion that drops the digits after the 64th)"""
    import struct, decimal
    decimal.getcontext().prec = 2000
    bits = rng.choice([0x3FF0000000000000, 0x3FF0000000000001, 0x400921FB54442D18, 0x3FB999999999999A, 0x4340000000000000,
                       rng.randrange(0x3F00000000000000, 0x4400000000000000)])
    x = struct.unpack("<d", struct.pack("<Q", bits))[0]
    y = struct.unpack("<d", struct.pack("<Q", bits + 1))[0]
    m = (decimal.Decimal(x) + decimal.Decimal(y)) / 2
    t = format(m, "f")
    if "." not in t:
        t += ".0"
    k = rng.random()
    if k < 0.25:
        pass                                            # the tie itself
    elif k < 0.6:
        t = t + "0" * rng.choice([0, 3, 20, 40, 80]) + rng.choice("19")         # just above
    else:
        # just below: the last digit lowered, then nines
        i = len(t) - 1
        t = t[:i] + str(int(t[i]) - 1 if t[i] != "0" else 0) + "9" * rng.choice([1, 5, 30, 70])
    return (("-" if rng.chance(0.3) else "") + t).encode()


def gen_number(rng):
    k = rng.random()
    if k < 0.04:
        return midpoint_number(rng)
    if k < 0.25:
        s = rng.choice(["0", "-0", "1", "-1", "7", "10", "123", "2147483647", "-2147483648", "9223372036854775807",
                        "9223372036854775808", "-9223372036854775808", "18446744073709551615", "4294967296"])
    elif k < 0.34:
        s = ("-" if rng.chance(0.4) else "") + str(rng.randrange(1, 10)) + "".join(rng.choice("0123456789") for _ in range(rng.randrange(0, 19)))
    elif k < 0.40:
        # integers of 19 .. 40 digits with every leading digit: at and far beyond the 64-bit bounds (saturation in default
        # mode, rejection in strict mode, whatever the conversion routine's overflow test looks at)
        s = ("-" if rng.chance(0.35) else "") + str(rng.randrange(1, 10)) + "".join(rng.choice("0123456789") for _ in range(rng.choice([18, 19, 19, 19, 20, 21, 25, 39])))
    else:
        ip = rng.choice(["0", str(rng.randrange(1, 10 ** rng.randrange(1, 18)))])
        s = ("-" if rng.chance(0.4) else "") + ip
        if rng.chance(0.7):
            s += "." + "".join(rng.choice("0123456789") for _ in range(rng.randrange(1, 18)))
        if rng.chance(0.5) or "." not in s:
            s += rng.choice("eE") + rng.choice(["", "+", "-"]) + str(rng.randrange(0, rng.choice([5, 30, 310, 400])))
    return s.encode()


def gen_doc(rng, depth, maxdepth, size=4):
    """returns text of a random RFC 8259 value with nesting <= maxdepth - depth containers"""
    k = rng.random()
    can_nest = depth < maxdepth
    if k < 0.22 and can_nest:
        n = rng.randrange(0, size)
        items = [ws(rng) + gen_doc(rng, depth + 1, maxdepth, size) + ws(rng) for _ in range(n)]
        return b"[" + (b",".join(items) if items else ws(rng)) + b"]"
    if k < 0.44 and can_nest:
        n = rng.randrange(0, size)
        keys = [b'"' + (rng.choice([b"a", b"b", b"k", b""]) if rng.chance(0.5) else gen_string_body(rng, 5, key=True)) + b'"' for _ in range(n)]
        items = [ws(rng) + kx + ws(rng) + b":" + ws(rng) + gen_doc(rng, depth + 1, maxdepth, size) + ws(rng) for kx in keys]
        return b"{" + (b",".join(items) if items else ws(rng)) + b"}"
    if k < 0.60:
        return b'"' + gen_string_body(rng) + b'"'
    if k < 0.85:
        return gen_number(rng)
    return rng.choice([b"true", b"false", b"null"])


def gen_text(rng, maxdepth=6):
    return ws(rng) + gen_doc(rng, 0, rng.randrange(0, maxdepth), rng.choice([2, 3, 5])) + ws(rng)


EXT_SNIPPETS = [b"/*c*/", b"//x\n", b"/**/", b"'", b"'a'", b",]", b",}", b"TRUE", b"True", b"nULL", b"False", b"NaN", b"nan",
                b"Infinity", b"-Infinity", b"infinity", b"-inf", b"00", b"-01", b"01.5", b"1e", b"1e+", b"1.", b"-.5", b".5",
                b"\x01", b"\x1f", b"\x00", b"\\x", b"\\u12", b"\\ud800", b"\\ud800\\n", b"\xff", b"\xc3", b"\xe2\x82", b"\xf0\x9f\x98",
                b"1-2", b"1+2", b"--1", b"1.2.3", b"1e5e5", b"-", b"+1", b"[", b"]", b"{", b"}", b":", b",", b"\"", b"/", b"*/", b"**/"]


def mutate(rng, text):
    t = bytearray(text)
    for _ in range(rng.choice([1, 1, 2, 3])):
        k = rng.random()
        pos = rng.randrange(0, len(t) + 1)
        if k < 0.35:
            t[pos:pos] = rng.choice(EXT_SNIPPETS)
        elif k < 0.55 and t:
            del t[pos % len(t)]
        elif k < 0.75 and t:
            t[pos % len(t)] = rng.randrange(256)
        elif k < 0.85 and t:
            t[pos % len(t)] ^= 1 << rng.randrange(8)
        else:
            t = t[:pos]
    return bytes(t)


def number_torture(rng):
    """a short word over the alphabet of numbers (digits . e E + -), bare or inside a container: every confusion of the
    number scanner's flags (second exponent, second point, sign after digit, point after exponent) at every split"""
    n = rng.randrange(2, 11)
    w = bytes(rng.choice(b"0123456789") if rng.chance(0.5) else rng.choice(b"..eeEE+-") for _ in range(n))
    if rng.chance(0.5):
        # a well-formed prefix with point and exponent, then junk from the same alphabet
        w = rng.choice([b"1.5E3", b"-0.25e-2", b"2e5", b"1.0", b"10E+1"]) + w[:rng.randrange(1, 4)]
    return rng.choice([b"%s", b"[%s]", b"%s ", b"[%s,1]", b'{"a":%s}', b"[%s ]"]) % w


def escape_torture(rng):
    """a string made of \\u escapes around the surrogate rules, some of them damaged (a non-hex character in any of the four
    positions, a missing digit, a missing backslash or u): every path through the escape states at every split"""
    HI = [b"d83d", b"D800", b"dbff", b"DBFF", b"d800"]
    LO = [b"dc00", b"DFFF", b"de00", b"dd1e", b"DC00"]
    BMP = [b"0041", b"00e9", b"20ac", b"ffff", b"0000", b"1241", b"d7ff", b"e000"]
    out = b""
    for _ in range(rng.randrange(1, 4)):
        h = bytearray(rng.choice(HI + HI + LO + BMP))
        k = rng.random()
        if k < 0.3:
            h[rng.randrange(4)] = rng.choice(b"gGtTxzZ-+ .")
        elif k < 0.4:
            del h[rng.randrange(4)]
        unit = b"\\u" + bytes(h)
        if rng.chance(0.12):
            # what a library number parser would accept where four hex digits are required: 0x / 0X prefix, sign, blank
            unit = b"\\u" + rng.choice([b"0x41", b"0X1f", b"0x4g", b"+041", b"-041", b" 041", b"0x00", b"00x4"])
        if rng.chance(0.1):
            unit = rng.choice([b"u" + bytes(h), b"\\" + bytes(h), b"\\U" + bytes(h)])
        out += unit
        if rng.chance(0.25):
            out += rng.choice([b"x", b"\\n", b"\\", b" ", b"\xc3\xa9"])
    return rng.choice([b'"%s"', b'["%s"]', b'{"%s":1}', b'"%s" ']) % out


UTF8_EDGE = [0xC0, 0xC1, 0xC2, 0xDF, 0xE0, 0xE0, 0xE1, 0xEC, 0xED, 0xEE, 0xEF, 0xF0, 0xF0, 0xF1, 0xF3, 0xF4, 0xF5, 0xF8, 0xFF,
             0x80, 0x8F, 0x90, 0x9F, 0xA0, 0xBF, 0x7F, 0x41]


def utf8_torture(rng):
    """a string of lead / continuation bytes at the boundaries of the UTF-8 table (overlong, surrogate range, beyond U+10FFFF,
    truncated sequences), ending anywhere - also exactly after a lead byte (for JSON_TOKENER_VALIDATE_UTF8)"""
    body = bytes(rng.choice(UTF8_EDGE) for _ in range(rng.randrange(1, 7)))
    if rng.chance(0.4):
        body += rng.choice(["\u00e9", "\u20ac", "\U0001F600", "\u0800", "\ud7ff"]).encode("utf-8")[:rng.randrange(1, 5)]
    return rng.choice([b'"%s"', b'"%s', b'["a%s"]', b'{"%s":0}', b'"%s" ', b"%s"]) % body


def torture(rng):
    return rng.choice([number_torture, escape_torture, utf8_torture])(rng)


def random_bytes(rng, n):
    alph = b'[]{}:,"\\/ \n\t0123456789-+.eEtrufalsn\'*IiNnTF\x00\xff\xc3\xa9'
    return bytes(rng.choice(alph) if rng.chance(0.85) else rng.randrange(256) for _ in range(n))


def chunkings(rng, data, how):
    """yield lists of chunks"""
    n = len(data)
    if how == "one":
        return [data]
    if how == "bytes":
        return [data[i:i + 1] for i in range(n)]
    if how == "two":
        k = rng.randrange(0, n + 1)
        return [data[:k], data[k:]]
    cuts = sorted(rng.randrange(0, n + 1) for _ in range(rng.randrange(1, 5)))
    out, prev = [], 0
    for c in cuts:
        out.append(data[prev:c]); prev = c
    out.append(data[prev:])
    return out


# ----------------------------------------------------------------------------------------------
# token-list documents: every insertion point for an extension is known (used by C01 C15 C16)

def tdoc(rng, depth, maxdepth, size=4):
    """returns a list of (kind, bytes) tokens of a random RFC 8259 value;
    kinds: ws, open, close, comma, colon, string, key, number, literal"""
    k = rng.random()
    can_nest = depth < maxdepth

    def w():
        s = ws(rng)
        return [("ws", s)] if s else []
    if k < 0.25 and can_nest:
        n = rng.randrange(0, size)
        out = [("open", b"[")]
        if n == 0:
            out += w()
        for i in range(n):
            if i:
                out.append(("comma", b","))
            out += w() + tdoc(rng, depth + 1, maxdepth, size) + w()
        return out + [("close", b"]")]
    if k < 0.50 and can_nest:
        n = rng.randrange(0, size)
        out = [("open", b"{")]
        if n == 0:
            out += w()
        for i in range(n):
            if i:
                out.append(("comma", b","))
            key = b'"' + (rng.choice([b"a", b"b", b"k", b""]) if rng.chance(0.5) else gen_string_body(rng, 5, key=True)) + b'"'
            out += w() + [("key", key)] + w() + [("colon", b":")] + w() + tdoc(rng, depth + 1, maxdepth, size) + w()
        return out + [("close", b"}")]
    if k < 0.65:
        return [("string", b'"' + gen_string_body(rng) + b'"')]
    if k < 0.88:
        return [("number", gen_number(rng))]
    return [("literal", rng.choice([b"true", b"false", b"null"]))]


def ttext(tokens):
    return b"".join(t[1] for t in tokens)


def nested(rng, depth, leafdepth_kind="mixed"):
    """a document whose deepest value is enclosed by exactly `depth` containers; empty containers and
    member values / elements at the boundary (built inside out, iteratively: depth may be in the thousands)"""
    doc = rng.choice([b"1", b'"x"', b"null", b"[]", b"{}", b"[ ]", b"{ }", b"-2.5e3"])
    for _ in range(depth):
        inner = doc
        pad_before = rng.choice([b"", b"1,", b'"s", ', b"[],", b"{},"])
        pad_after = rng.choice([b"", b",2", b", []", b",{}"])
        if rng.chance(0.5):
            doc = b"[" + ws(rng) + pad_before + inner + pad_after + ws(rng) + b"]"
        else:
            kb = rng.choice([b'"a":0,', b"", b'"q":[],'])
            ka = rng.choice([b"", b',"z":null', b',"y":{}'])
            doc = b"{" + ws(rng) + kb + b'"k"' + ws(rng) + b":" + ws(rng) + inner + ka + ws(rng) + b"}"
    return doc
