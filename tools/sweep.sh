#!/bin/bash
# sweep.sh <tier> <seed...>: every check at the given tier and seeds on the current tree; one summary line per run.
# (development aid: used with `vp run` to look for false alarms of the thorough tiers / other seeds on the clean tree)
tier=$1; shift
python3 tools/setup.py | tail -1
for seed in "$@"; do
  for p in C01 C02 C03 C04 C05 C06 C07 C08 C09 C10 C11 C12 C13 C14 C15 C16 C17 C18 C19 C20; do
    s=$(date +%s)
    VERIF_SEED=$seed python3 tools/check.py $p --tier $tier > sweep_${tier}_${seed}_$p.log 2>&1
    rc=$?
    echo "$p tier=$tier seed=$seed rc=$rc t=$(( $(date +%s) - s )) violations=$(grep -c '^VIOLATION' sweep_${tier}_${seed}_$p.log)"
  done
done
