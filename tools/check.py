#!/usr/bin/env python3
"""check.py <Cxx> [--tier quick|thorough] [--replay file]

One entry point for every property (DESIGN.md section 5).  A run
  1. regenerates lean/JsonC/Generated from /repo's current source,
  2. re-checks the property's theorems (lake build of Props/<Cxx>, source + axiom audit),
  3. rebuilds the library from /repo's working tree under ASan/UBSan with the C harness,
  4. runs implementation, Lean model and Lean spec on the same generated cases and compares,
  5. shrinks and reports any divergence, writes evidence/<Cxx>.json.
Exit 0 = property held on everything explored; exit 1 + "VIOLATION property=.. replay=.." otherwise.
"""
import argparse, importlib, json, os, sys, time, traceback

sys.path.insert(0, os.path.dirname(os.path.abspath(__file__)))
import common as C
from common import log

SEP = " @@ "
MAX_CRASHES = 4      # per slice of cases handed to the harness
MODEL_EXE = None     # set to the driver built from the reference facts when the theorems no longer check (see common.ref_driver)


class Div:
    """A divergence on one case."""
    def __init__(self, kind, case, index, impl, model, spec, tags, detail=""):
        self.kind = kind      # 'spec' (impl != spec), 'model' (impl != model on internals), 'crash', 'modelfault'
        self.case, self.index = case, index
        self.impl, self.model, self.spec, self.tags, self.detail = impl, model, spec, tags, detail


def split_cases(out_lines):
    """Split an output stream at the '# id' marker lines."""
    res, cur, cid = {}, None, None
    for l in out_lines:
        if l.startswith("# "):
            cid = l[2:].strip()
            cur = []
            res[cid] = cur
        elif cur is not None:
            cur.append(l)
    return res


def run_impl(P, harness, cases, env=None):
    """Run the C harness over cases; restarts after a crash. Returns {caseid: (lines, crashinfo)}."""
    res = {}
    todo = list(cases)
    ncrash = 0
    while todo:
        if ncrash >= MAX_CRASHES:
            # enough replays: a change that makes many cases crash or hang (40 s of watchdog each) must not keep the check
            # busy for hours; the cases that were not run are not judged
            for c in todo:
                res[c["id"]] = (None, "skipped")
            break
        lines = []
        for c in todo:
            lines.append("# " + c["id"])
            lines += c["lines"]
        out, err, rc = C.run_lines([harness] + list(getattr(P, "HARNESS_ARGS", [])), lines, env=env,
                                   timeout=getattr(P, "TIMEOUT", 900))
        got = split_cases(out)
        if rc == 0:
            for c in todo:
                res[c["id"]] = (got.get(c["id"], []), None)
            break
        # crashed: the last case that produced a marker is the culprit
        ncrash += 1
        done_ids = [c["id"] for c in todo if c["id"] in got]
        if not done_ids:
            res[todo[0]["id"]] = ([], "rc=%d %s" % (rc, err[-1500:]))
            todo = todo[1:]
            continue
        k = len(done_ids) - 1
        for c in todo[:k]:
            res[c["id"]] = (got[c["id"]], None)
        res[todo[k]["id"]] = (got[todo[k]["id"]], "rc=%d %s" % (rc, err[-1500:]))
        todo = todo[k + 1:]
    return res


def run_model(P, cases):
    lines = []
    for c in cases:
        lines.append("# " + c["id"])
        lines += c["lines"]
    out, err, rc = C.run_lines([MODEL_EXE or C.driver_path(P.COMPONENT)], lines, timeout=getattr(P, "TIMEOUT", 900))
    if rc != 0:
        raise C.BuildError("Lean driver failed rc=%s: %s" % (rc, err[-2000:]))
    return split_cases(out)


def parse_model_line(l):
    parts = l.split(SEP)
    while len(parts) < 4:
        parts.append("")
    return parts[0], parts[1], [t for t in parts[2].split(",") if t], [t for t in parts[3].split(",") if t]


def spec_part(l):
    return l.split(" ## ")[0]


def compare_case(P, case, impl_lines, crash, model_lines):
    """Returns (list of Div, tags hit, coverage tags)."""
    divs, alltags, cov = [], set(), set()
    n = len(case["lines"])
    for i in range(n):
        if i >= len(model_lines):
            divs.append(Div("modelfault", case, i, "", "<missing>", "", [], "driver produced no line"))
            break
        m, s, tags, cv = parse_model_line(model_lines[i])
        alltags.update(tags); cov.update(cv)
        if i >= len(impl_lines):
            divs.append(Div("crash", case, i, "<no output>", m, s, tags, crash or "harness stopped"))
            break
        il = impl_lines[i]
        cmp = getattr(P, "compare_line", None)
        if cmp is not None:
            r = cmp(case, i, il, m, s, tags)
            if r is not None:
                divs.append(Div(r[0], case, i, il, m, s, tags, r[1]))
                if r[0] == "model" and spec_part(il) == spec_part(m):
                    # correspondence broke on internal state only (the visible parts agree, so implementation and
                    # model are still on the same abstract history and the specification lines below still apply):
                    # look further down this case for a line that contradicts the specification
                    for j in range(i + 1, min(n, len(impl_lines), len(model_lines))):
                        if case["lines"][j].split(" ")[0] in getattr(P, "LAYOUT_OPS", ()):
                            break       # an op whose meaning depends on the internal layout, which no longer corresponds
                        mj, sj, tj, _ = parse_model_line(model_lines[j])
                        rj = cmp(case, j, impl_lines[j], mj, sj, tj)
                        if rj is not None and rj[0] in ("spec", "crash") and sj not in ("", "*"):
                            divs.insert(0, Div(rj[0], case, j, impl_lines[j], mj, sj, tj,
                                               rj[1] + " (after the correspondence with the model broke at line %d)" % i))
                            break
                        if spec_part(impl_lines[j]) != spec_part(mj):
                            break       # the histories parted in a way the specification allows: nothing below compares
                break
            continue
        if s != "" and s != "*" and spec_part(il) != s:
            divs.append(Div("spec", case, i, il, m, s, tags, "implementation differs from the specification"))
            break
        if il != m:
            # by default the Lean model is not the property's specification: a difference between
            # implementation and model breaks the correspondence, not (by itself) the property
            kind = "spec" if (spec_part(il) != spec_part(m) and s in ("", "*") and getattr(P, "MODEL_IS_SPEC", False)) else "model"
            divs.append(Div(kind, case, i, il, m, s, tags, "implementation differs from the Lean model"))
            if kind == "model" and spec_part(il) == spec_part(m):
                # the correspondence broke here on internal state only; the visible parts agree, so the specification
                # lines below (computed along the model's history) still apply: keep looking in the rest of this case
                # for a line on which the implementation contradicts them - that is a failing input for the property
                # and is reported first.  (When the visible parts differ in a way the specification allows - e.g. an
                # allocation refused in one and served in the other - the histories have parted and nothing below
                # can be compared.)
                for j in range(i + 1, min(n, len(impl_lines), len(model_lines))):
                    if case["lines"][j].split(" ")[0] in getattr(P, "LAYOUT_OPS", ()):
                        break
                    mj, sj, tj, _ = parse_model_line(model_lines[j])
                    if sj not in ("", "*") and spec_part(impl_lines[j]) != sj:
                        divs.insert(0, Div("spec", case, j, impl_lines[j], mj, sj, tj,
                                           "implementation differs from the specification (after the correspondence with the model broke at line %d)" % i))
                        break
                    if spec_part(impl_lines[j]) != spec_part(mj):
                        break
                else:
                    if len(impl_lines) < n and crash:
                        divs.insert(0, Div("crash", case, len(impl_lines), "<no output>", "", "", [], crash))
            break
    else:
        if crash:
            divs.append(Div("crash", case, n - 1, "<crash after last op>", "", "", [], crash))
    # property-level oracle over the whole case (e.g. split-invariance, reset-like-new)
    cc = getattr(P, "check_case", None)
    if cc is not None:
        # evaluated even when the correspondence already broke on this case: a broken correspondence is
        # not by itself a violation, a failing input for the property is (and is reported first)
        try:
            found = cc(case, impl_lines, model_lines)
        except Exception as e:      # truncated output after a crash etc.
            found = []
        for (kind, idx, detail) in found:
            idx = min(idx, n - 1)
            m, s, tags, _ = parse_model_line(model_lines[idx]) if idx < len(model_lines) else ("", "", [], [])
            divs.insert(0, Div(kind, case, idx, impl_lines[idx] if idx < len(impl_lines) else "", m, s, tags, detail))
            break
    return divs, alltags, cov


def still_fails(P, harness, case, kind, env=None):
    im = run_impl(P, harness, [case], env=env)
    mo = run_model(P, [case])
    il, crash = im[case["id"]]
    divs, _, _ = compare_case(P, case, il, crash, mo.get(case["id"], []))
    for d in divs:
        if d.kind == kind:
            return d
    return None


def shrink(P, harness, div, env=None, budget=250):
    """Delta-debug the op lines of the failing case (first `keep` lines are fixed)."""
    case = dict(div.case)
    keep = case.get("keep", 0)
    lines = list(case["lines"])[: div.index + 1]
    best = div
    trials = 0
    chunk = max(1, (len(lines) - keep) // 2)
    while chunk >= 1 and trials < budget:
        i = keep
        progressed = False
        while i < len(lines) and trials < budget:
            cand = lines[:i] + lines[i + chunk:]
            if len(cand) < max(1, keep):
                i += chunk
                continue
            trials += 1
            c2 = dict(case); c2["lines"] = cand; c2["id"] = case["id"]
            d = still_fails(P, harness, c2, div.kind, env=env)
            if d is not None:
                lines = cand[: d.index + 1]
                best = d
                progressed = True
            else:
                i += chunk
        if not progressed:
            chunk //= 2
    best.case = dict(case); best.case["lines"] = lines
    return best


def write_replay(prop, div, extra=None, name=None):
    os.makedirs(C.REPLAY, exist_ok=True)
    path = os.path.join(C.REPLAY, name or ("%s_%s_%s.json" % (prop, div.kind, div.case["id"].replace("/", "_"))))
    obj = {"property": prop, "kind": div.kind, "case": div.case, "failing_line_index": div.index,
           "implementation": div.impl, "model": div.model, "spec": div.spec, "tags": div.tags,
           "detail": div.detail}
    if extra:
        obj.update(extra)
    json.dump(obj, open(path, "w"), indent=1)
    return path


def write_obligation_replay(prop, what, detail):
    os.makedirs(C.REPLAY, exist_ok=True)
    path = os.path.join(C.REPLAY, "%s_obligation.json" % prop)
    json.dump({"property": prop, "kind": "obligation", "no_longer_checks": what, "detail": detail},
              open(path, "w"), indent=1)
    return path


def main():
    ap = argparse.ArgumentParser()
    ap.add_argument("prop")
    ap.add_argument("--tier", default=os.environ.get("VERIF_TIER", "quick"))
    ap.add_argument("--replay")
    a = ap.parse_args()
    prop = a.prop.upper()
    tier = a.tier if a.tier in ("quick", "thorough") else "quick"
    seed = C.seed_from_env()
    t0 = time.time()
    P = importlib.import_module("props." + prop.lower())
    violations = []          # printed lines
    known_seen = {}
    obligations_broken = []
    notes = []

    # ---- 1+2: tie (regenerated part) and proofs
    try:
        C.ensure_generated()
    except C.BuildError as e:
        print(str(e))
        obligations_broken.append(("extraction", str(e)[-800:]))
    ok_drv, out_drv = C.lake(["driver-" + P.COMPONENT])
    TIE = list(getattr(P, "TIE", ()))
    prop_targets = ["JsonC.Props." + prop] + ["JsonC.Lemmas." + m for m in TIE]
    ok_p, out_p = C.lake(prop_targets)
    thms, ax = [], {}
    changed = C.facts_changed()
    root = C.LEAN
    if (not ok_p or not ok_drv) and changed:
        # /repo's regenerated facts differ from the reference facts (lean/ref) and the model rebuilt from them is not
        # covered by the theorems.  The theorems are about the model built from the reference facts: re-check them
        # there (build/reflake) and compare the implementation with THAT model - a hand-written model tied to the code
        # by the correspondence run.  If the implementation still corresponds to it, the property is shown to hold as
        # on the unchanged tree (a statement moved out of an extractor's sight is not a change of behaviour); if it
        # does not, the divergence is the violation.
        global MODEL_EXE
        why = ("model/driver build: " + "; ".join(C.failing_decls(out_drv)[:5])) if not ok_drv else \
              ("theorem(s) no longer check: " + "; ".join(C.failing_decls(out_p)[:8]))
        fact_lines = [l for _, ls in changed for l in ls if "thrAccessSites" not in l]
        log("FACTS CHANGED (%s): the model regenerated from the current source is not covered by the theorems [%s];\n"
            "falling back to the reference model (build/reflake)\n%s" % ("; ".join(n for n, _ in changed), why, "\n".join(fact_lines)[:3000]))
        ok_drv, out_drv = C.lake_ref(["driver-" + P.COMPONENT])
        ok_p, out_p = C.lake_ref(prop_targets)
        if ok_drv:
            MODEL_EXE = C.ref_driver_path(P.COMPONENT)
        root = C.REFLAKE
        fallback = {"facts_changed": fact_lines[:60], "regenerated_model": why}
        notes.append("extracted facts differ from the reference facts and the regenerated model is not covered by the theorems (%s): "
                     "theorems re-checked for, and implementation compared with, the reference model; search widened to %d seeds"
                     % (why, 3))
    else:
        fallback = None
    if not ok_drv:
        obligations_broken.append(("model/driver build: " + "; ".join(C.failing_decls(out_drv)[:5]), out_drv[-1500:]))
    if not ok_p:
        obligations_broken.append(("theorem(s) no longer check: " + "; ".join(C.failing_decls(out_p)[:8]), out_p[-2500:]))
    else:
        with C.lean_root(root):
            hits = C.audit_sources(prop)
            if hits:
                obligations_broken.append(("source audit", "\n".join(hits[:20])))
            ax, problems = C.audit_axioms(prop, TIE)
            thms = sorted(ax)
            if problems:
                obligations_broken.append(("axiom audit", "\n".join(problems[:20])))
            if tier == "thorough" and getattr(P, "LEANCHECKER", True):
                r = C.sh(["lake", "env", "leanchecker", "JsonC.Props." + prop], cwd=root)
                if r.returncode != 0:
                    obligations_broken.append(("leanchecker", r.stdout[-1500:]))
                else:
                    notes.append("leanchecker re-checked JsonC.Props." + prop)

    # ---- 3: implementation from the current working tree
    cases, stats = [], {}
    harness, div_found = None, []
    cov_hist, ntv, evals, validated = {}, set(), 0, 0
    samples = []
    try:
        if hasattr(P, "prepare"):
            P.prepare(C, tier)
        harness = C.build_harness(P.HARNESS, getattr(P, "VARIANT", "asan"), getattr(P, "EXTRA_FLAGS", ()),
                                  getattr(P, "WRAPS", ()))
    except C.BuildError as e:
        print(str(e))
        p = write_obligation_replay(prop, "build of /repo's working tree", str(e)[-3000:])
        print("VIOLATION property=%s replay=%s no-failing-input-found" % (prop, p))
        C.write_evidence(prop, tier, seed, "proof", {"obligations": max(1, len(thms)), "discharged": 0,
                         "checker_cmd": "lake build JsonC.Props." + prop, "trusted_base": [],
                         "explanation": "library/harness did not build"}, [], time.time() - t0, 1)
        sys.exit(1)

    env = getattr(P, "ENV", None)
    if callable(env):
        env = env(C)
    if a.replay:
        rp = json.load(open(a.replay))
        if rp.get("kind") == "obligation":
            print("obligation replay: %s" % rp["no_longer_checks"])
            print("now: %s" % ("still broken: %s" % obligations_broken if obligations_broken else "all obligations check"))
            sys.exit(1 if obligations_broken else 0)
        case = rp["case"]
        im = run_impl(P, harness, [case], env=env)
        mo = run_model(P, [case]) if ok_drv else {}
        il, crash = im[case["id"]]
        ml = mo.get(case["id"], [])
        for i, l in enumerate(case["lines"]):
            print("op    %s" % l)
            print(" impl %s" % (il[i] if i < len(il) else "<none>"))
            print(" lean %s" % (ml[i] if i < len(ml) else "<none>"))
        if crash:
            print("crash: " + crash)
        divs, _, _ = compare_case(P, case, il, crash, ml)
        for d in divs:
            print("DIVERGENCE kind=%s line=%d: %s" % (d.kind, d.index, d.detail))
        sys.exit(1 if divs else 0)

    # ---- 4: correspondence run
    rng = C.Rng(seed * 1000003 + (17 if tier == "thorough" else 0))
    corpus_dir = os.path.join(C.VERIF, "corpus", prop)
    if os.path.isdir(corpus_dir):
        for f in sorted(os.listdir(corpus_dir)):
            if f.endswith(".json"):
                cj = json.load(open(os.path.join(corpus_dir, f)))
                cj["id"] = "corpus-" + f[:-5]
                cases.append(cj)
    gen_cases = list(P.gen(rng, tier))
    for i, c in enumerate(gen_cases):
        c.setdefault("id", "g%d" % i)
    cases += gen_cases
    if fallback is not None and not getattr(P, "NO_WIDEN", False):
        # the code changed in a place the model depends on: look harder before concluding
        for extra in (1, 2):
            more = list(P.gen(C.Rng((seed + 7919 * extra) * 1000003 + (17 if tier == "thorough" else 0)), tier))
            for i, c in enumerate(more):
                c["id"] = "x%d_%s" % (extra, c.get("id", "g%d" % i))
            cases += more
    if ok_drv:
        # run in slices so that a huge tier does not hold everything in one process
        SL = getattr(P, "SLICE", 400)
        for s in range(0, len(cases), SL):
            sl = cases[s:s + SL]
            im = run_impl(P, harness, sl, env=env)
            mo = run_model(P, sl)
            for c in sl:
                il, crash = im.get(c["id"], ([], "no output"))
                if il is None:
                    continue            # not run (see run_impl)
                divs, tags, cov = compare_case(P, c, il, crash, mo.get(c["id"], []))
                evals += 1
                validated += 0 if divs else 1
                for t in cov:
                    cov_hist[t] = cov_hist.get(t, 0) + 1
                if len(cov) >= getattr(P, "NONTRIVIAL_MIN_TAGS", 2):
                    ntv.add("\n".join(c["lines"]))
                if len(samples) < 3 and len(c["lines"]) > 1 and len(c["lines"]) < 40:
                    cut = lambda l: l if len(l) <= 240 else l[:240] + "...<%d more>" % (len(l) - 240)
                    samples.append({"ops": [cut(l) for l in c["lines"][:12]], "impl": [cut(l) for l in il[:12]]})
                div_found += divs
            if len([d for d in div_found if d.kind in ("spec", "crash")]) > 20 or len(div_found) > 400 or \
                    len([d for d in div_found if d.kind == "crash"]) >= 6:
                break
    # ---- 5: classify
    known = C.load_known()
    known_tags = {}
    for f in known.get("findings", []):
        if f["property"] == prop:
            known_tags[f["tag"]] = f
    reported = 0
    seen_sig = set()
    # concrete failures of the property first, broken correspondence last
    div_found.sort(key=lambda d: {"spec": 0, "crash": 1}.get(d.kind, 2 if d.kind.startswith("known:") else 3))
    is_known = lambda d: d.kind == "spec" and d.impl == d.model and d.tags and all(t in known_tags for t in d.tags)
    if any(d.kind in ("spec", "crash") and not is_known(d) for d in div_found):
        # the search found failing inputs: the correspondence breaks are explained by them.  (A recorded finding explains
        # nothing: where the only concrete failures are known findings, a broken correspondence is still reported.)
        div_found = [d for d in div_found if d.kind in ("spec", "crash") or d.kind.startswith("known:")]
    for d in div_found:
        if reported >= 5:
            break
        if d.kind == "spec" and d.impl == d.model and d.tags and all(t in known_tags for t in d.tags):
            for t in d.tags:
                known_seen[t] = known_tags[t]
            continue
        if d.kind.startswith("known:"):
            # the property module recognised the input class of a recorded finding (by construction of the input)
            tag = d.kind[6:]
            if tag in known_tags and d.impl == d.model:
                known_seen[tag] = known_tags[tag]
                continue
            d.kind = "spec"
        sig = (d.kind, tuple(sorted(d.tags)), d.detail[:60])
        if sig in seen_sig:
            continue
        seen_sig.add(sig)
        try:
            if not d.case.get("noshrink"):
                # an operation that hangs costs a whole watchdog period per attempt: shrink only a little
                d = shrink(P, harness, d, env=env, budget=6 if "HANG" in (d.detail or "") else 250)
        except Exception as e:
            log("shrink failed: %r" % e)
        if d.kind in ("spec", "crash"):
            p = write_replay(prop, d)
            violations.append("VIOLATION property=%s replay=%s" % (prop, p))
        else:
            # model-only divergence: the model no longer describes the code. Search = the spec comparison
            # already ran on every case above (and on this one); nothing failed the property itself.
            p = write_replay(prop, d, {"no_longer_checks": "correspondence (implementation vs Lean model) on internal observables"})
            violations.append("VIOLATION property=%s replay=%s no-failing-input-found" % (prop, p))
        reported += 1
    if obligations_broken:
        spec_viol = [v for v in violations if not v.endswith("no-failing-input-found")]
        if not spec_viol:
            p = write_obligation_replay(prop, [o[0] for o in obligations_broken], [o[1] for o in obligations_broken])
            violations.append("VIOLATION property=%s replay=%s no-failing-input-found" % (prop, p))
        for o in obligations_broken:
            log("OBLIGATION BROKEN: %s\n%s" % o)

    if fallback is not None and TIE and any("Translated" in n for n, _ in changed) and \
            not [v for v in violations if not v.endswith("no-failing-input-found")]:
        # a theorem about translated code broke and the correspondence run found no failing input among the states it can
        # allocate: search the translation itself (current vs the one the theorems are about) on boundary-biased
        # arguments - INT_MAX / SIZE_MAX-adjacent sizes no harness can allocate (tools/boundary_search.py)
        try:
            import boundary_search
            hits, binfo = boundary_search.search(TIE, seed=seed)
        except Exception as e:
            hits, binfo = [], {"skipped_reason": repr(e)[:300]}
        notes.append("boundary search on the translated code: %s" % json.dumps(binfo)[:600])
        if hits:
            h = hits[0]
            p = write_obligation_replay(prop, "translated code of %s (Generated/Translated.lean, regenerated from the current source) fails at a "
                                        "boundary input; theorem(s) no longer checking: %s" % (h["function"], fallback["regenerated_model"]),
                                        json.dumps({"function": h["function"], "parameters": h["params"], "arguments": h["args"], "failure": h["what"],
                                                    "further_hits": hits[1:8],
                                                    "replay": "python3 tools/boundary_search.py " + " ".join(TIE)}, indent=1))
            violations.append("VIOLATION property=%s replay=%s" % (prop, p))
            log("BOUNDARY SEARCH: %s(%s): %s" % (h["function"], h["args"], h["what"]))
    if fallback is not None and not violations:
        print("NOTE property=%s the facts extracted from the current source differ from the reference facts (%s); the theorems were "
              "re-checked for the reference model and the implementation corresponds to it on all %d cases explored"
              % (prop, "; ".join(l.split(":=")[0].replace("+ def ", "").replace("- def ", "").strip() for l in fallback["facts_changed"][:6] if l.startswith("+")), evals))
    for t, f in sorted(known_seen.items()):
        print("KNOWN-FINDING: property=%s %s %s" % (prop, f["id"], f["description"]))
    for v in violations:
        print(v)

    # ---- 6: evidence
    n_thm = len(theorems_safe(prop, TIE))
    discharged = len(thms) if ok_p and not any(o[0] in ("source audit", "axiom audit") for o in obligations_broken) else 0
    trusted = ["Lean 4 kernel (lean 4.33.0)", "axioms: " + ", ".join(sorted({x for v in ax.values() for x in v}) or ["none"]),
               "tools/extract (constants/structure regenerated from source; c2lean.py: clang AST -> Lean for the functions of Generated/Translated.lean)",
               "correspondence harness harness/%s.c + Driver (differential run, ASan/UBSan)" % P.HARNESS] + list(getattr(P, "TRUSTED", []))
    coverage = {
        "obligations": max(1, n_thm), "discharged": discharged,
        "checker_cmd": "cd lean && lake build JsonC.Props.%s && #print axioms on each theorem (tools/common.py audit_axioms)" % prop,
        "trusted_base": trusted,
        "theorems": thms,
        "evaluations": evals, "distinct_nontrivial": len(ntv),
        "rule": getattr(P, "RULE", "seeded generator; a case is non-trivial when the model run hit at least 2 distinct branch tags; distinct = distinct op text"),
        "samples": samples or [{"note": "no short sample"}],
        "traces_validated_against_impl": validated,
        "branch_histogram": dict(sorted(cov_hist.items())),
        "known_findings_seen": sorted(known_seen),
        "notes": notes,
    }
    if fallback is not None:
        coverage["reference_model_fallback"] = fallback
    if discharged == 0:
        # schema: a proof-level record needs discharged >= 1; a run whose obligations broke reports them separately
        coverage["obligations_broken"] = [o[0] for o in obligations_broken]
        del coverage["obligations"], coverage["discharged"]
    if hasattr(P, "extra_coverage"):
        coverage.update(P.extra_coverage())
    C.write_evidence(prop, tier, seed, "proof", coverage, list(getattr(P, "ASSUMPTIONS", [])), time.time() - t0,
                     len(violations))
    log("%s %s: %d theorems, %d cases, %d validated, %d violations, %.1fs" %
        (prop, tier, len(thms), evals, validated, len(violations), time.time() - t0))
    sys.exit(1 if violations else 0)


def theorems_safe(prop, tie=()):
    try:
        return C.theorems_of(prop, tie)
    except OSError:
        return []


if __name__ == "__main__":
    try:
        main()
    except SystemExit:
        raise
    except Exception:
        traceback.print_exc()
        sys.exit(2)
