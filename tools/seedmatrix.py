#!/usr/bin/env python3
"""seedmatrix.py [-j N] [seed names...]: run every seeded change against its own property's check and the
related checks (private copies, see seedtest.py); then print the matrix recorded in seeded/*/meta.json."""
import json, os, subprocess, sys
from concurrent.futures import ThreadPoolExecutor
VERIF = os.path.dirname(os.path.dirname(os.path.abspath(__file__)))
TOK = ["C01", "C03", "C04", "C15", "C16"]
RELATED = {"C01": TOK, "C03": TOK, "C04": TOK, "C15": TOK, "C16": TOK, "C02": ["C02", "C14"], "C05": ["C05", "C09"], "C06": ["C06"],
           "C07": ["C07"], "C08": ["C08"], "C09": ["C09", "C05"], "C10": ["C10"], "C11": ["C11"], "C12": ["C12", "C13"],
           "C13": ["C13", "C12"], "C14": ["C14", "C02"], "C17": ["C17"], "C18": ["C18"], "C19": ["C19"], "C20": ["C20"]}


def claimed():
    return [l.strip() for l in open(os.path.join(VERIF, "tools", "claimed.txt")) if l.strip() and not l.startswith("#")]


def table():
    rows = []
    for name in sorted(os.listdir(os.path.join(VERIF, "seeded"))):
        try:
            m = json.load(open(os.path.join(VERIF, "seeded", name, "meta.json")))
        except OSError:
            continue
        if m.get("obsolete"):
            rows.append("| %s | (obsolete: %s) | |" % (name, m["obsolete"][:80]))
            continue
        rows.append("| %s | %s | %s |" % (name, " ".join(m.get("detected_by", [])) or "-", " ".join(m.get("not_detected_by", [])) or "-"))
    return "| seeded change | checks that report it | checks run that stay silent |\n|---|---|---|\n" + "\n".join(rows)


def main():
    args = sys.argv[1:]
    j = 4
    if args[:1] == ["-j"]:
        j = int(args[1]); args = args[2:]
    if args == ["--table"]:
        print(table()); return
    names = args or sorted(os.listdir(os.path.join(VERIF, "seeded")))
    cl = set(claimed())
    jobs = []
    for n in names:
        mp = os.path.join(VERIF, "seeded", n, "meta.json")
        if os.path.exists(mp) and json.load(open(mp)).get("obsolete"):
            continue
        checks = [c for c in RELATED.get(n.split("-")[0], [n.split("-")[0]]) if c in cl]
        if checks:
            jobs.append([sys.executable, os.path.join(VERIF, "tools", "seedtest.py"), n] + checks)
    with ThreadPoolExecutor(j) as ex:
        for r in ex.map(lambda cmd: subprocess.run(cmd, stdout=subprocess.PIPE, stderr=subprocess.STDOUT, text=True).stdout, jobs):
            sys.stdout.write(r); sys.stdout.flush()
    print(table())


if __name__ == "__main__":
    main()
